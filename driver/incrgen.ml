(* incrgen.ml — replication streams and configurations shared by C03 and C04. *)
open Glue
open Model

type cfg = { dbblack : string list; dbwhite : string list; keyblack : string list; keywhite : string list; lua : bool;
             tdb : int; resume : bool; scount : int; ssize : int }

type case = { cfg : cfg; startdb : int; base : int; cmds : (string list * int) list;  (* command words as sent, keep-alive newlines before it *)
              cuts : (int * int) list }                                             (* (index of first command of a segment, pause ms) *)

let bs = bytes_of_string
let lower = String.lowercase_ascii

let resp_bytes (words : string list) =
  string_of_bytes (encode (RArr (Some (List.map (fun w -> RBulk (Some (bs w))) words))))

let cfg_str c =
  let l xs = if xs = [] then "-" else String.concat "," (List.map hex_of_string xs) in
  Printf.sprintf "%s|%s|%s|%s|%d|%d|%d|%d|%d" (l c.dbblack) (l c.dbwhite) (l c.keyblack) (l c.keywhite)
    (if c.lua then 1 else 0) c.tdb (if c.resume then 1 else 0) c.scount c.ssize

let model_cfg_raw c : icfg =
  { i_f = { key_black = List.map bs c.keyblack; key_white = List.map bs c.keywhite; db_black = List.map bs c.dbblack;
            db_white = List.map bs c.dbwhite; slot_list = []; filter_lua = c.lua };
    i_tdb = (if c.tdb = -1 then None else Some (z_of_int c.tdb)); i_resume = c.resume;
    i_scount = nat_of_int c.scount; i_ssize = nat_of_int c.ssize;
    i_src = bs "src:6379"; i_runid = bs "runid"; i_ckpt = bs "redis-shake-checkpoint" }

let cfg_cache : (string, icfg) Hashtbl.t = Hashtbl.create 16
let model_cfg c = let k = cfg_str c in match Hashtbl.find_opt cfg_cache k with Some x -> x | None -> let x = model_cfg_raw c in Hashtbl.add cfg_cache k x; x

(* raws with the decoder offsets, and the stream bytes of each command (incl. its keep-alives) *)
let raws_of (cs : case) =
  let off = ref 0 in
  List.map (fun (words, nl) ->
    let b = String.make nl '\n' ^ resp_bytes words in
    off := !off + String.length b;
    ({ r_cmd = bs (lower (List.hd words)); r_args = List.map bs (List.tl words); r_end = z_of_int !off }, b)) cs.cmds

let configs = [
  { dbblack = []; dbwhite = []; keyblack = []; keywhite = []; lua = false; tdb = -1; resume = true; scount = 3; ssize = 1000000 };
  { dbblack = [ "5" ]; dbwhite = []; keyblack = [ "b" ]; keywhite = []; lua = true; tdb = -1; resume = true; scount = 2; ssize = 1000000 };
  { dbblack = []; dbwhite = [ "0"; "1" ]; keyblack = []; keywhite = [ "a" ]; lua = false; tdb = -1; resume = false; scount = 100; ssize = 40 };
  { dbblack = []; dbwhite = []; keyblack = []; keywhite = []; lua = false; tdb = 2; resume = false; scount = 1; ssize = 1000000 };
  { dbblack = [ "7" ]; dbwhite = []; keyblack = []; keywhite = []; lua = false; tdb = 2; resume = false; scount = 100; ssize = 1000000 };
  { dbblack = []; dbwhite = []; keyblack = []; keywhite = []; lua = false; tdb = -1; resume = true; scount = 100; ssize = 1000000 };
  { dbblack = []; dbwhite = []; keyblack = [ "b" ]; keywhite = []; lua = false; tdb = 0; resume = false; scount = 5; ssize = 1000000 };
  { dbblack = [ "7" ]; dbwhite = []; keyblack = []; keywhite = []; lua = true; tdb = 2; resume = true; scount = 3; ssize = 1000000 };
  (* target.db = 0 on a resumed run whose checkpoint sits in another database: the connection is NOT on db 0 when the stream starts *)
  { dbblack = []; dbwhite = []; keyblack = []; keywhite = []; lua = false; tdb = 0; resume = true; scount = 4; ssize = 1000000 };
  (* target.db names a database that the database lists exclude on the SOURCE side: the source's db 2 / db 5 stays filtered *)
  { dbblack = [ "2" ]; dbwhite = []; keyblack = []; keywhite = []; lua = false; tdb = 2; resume = false; scount = 3; ssize = 1000000 };
  { dbblack = []; dbwhite = [ "0"; "1" ]; keyblack = []; keywhite = []; lua = false; tdb = 5; resume = false; scount = 100; ssize = 1000000 } ]

let gen_cmd st =
  let key () = rnd_pick st [ "a1"; "a2"; "b1"; "b2"; "k"; "redis-shake-checkpoint-x" ] in
  let up w = if rnd_int st 5 = 0 then String.uppercase_ascii w else w in
  match rnd_int st 14 with
  | 0 | 1 | 2 -> [ up "set"; key (); rnd_string_of st "xyz01" (1 + rnd_int st 5) ]
  | 3 -> [ up "mset"; key (); "1"; key (); "2" ]
  | 4 -> [ up "del"; key (); key () ]
  | 5 -> [ up "hset"; key (); "f"; "v" ]
  | 6 -> [ up "ping" ]
  | 7 -> [ up "publish"; rnd_pick st [ "__sentinel__:hello"; "__SENTINEL__:hello"; "chan" ]; "x" ]
  | 8 -> [ rnd_pick st [ "eval"; "EVALSHA"; "script" ]; "return 1"; "0" ]
  | 9 -> [ up "lpush"; key (); "e1"; "e2" ]
  | 10 -> [ "flushdb" ]
  | 11 -> [ up "opinfo"; "x" ]
  | 12 -> [ up "unlink"; key () ]
  | _ -> [ up "incr"; key () ]

let gen_case st (cfg : cfg) : case =
  let n = 3 + rnd_int st 14 in
  let cmds = ref [] in
  let add ws = cmds := (ws, (if rnd_int st 8 = 0 then 1 + rnd_int st 2 else 0)) :: !cmds in
  let sel () = add [ (if rnd_int st 4 = 0 then "SELECT" else "select"); string_of_int (rnd_pick st [ 0; 1; 2; 5; 7 ]) ] in
  if cfg.tdb <> -1 || rnd_bool st then sel ();
  let in_tx = ref false in
  for _ = 1 to n do
    (match rnd_int st 10 with
     | 0 -> if not !in_tx then sel ()
     | 1 -> if not !in_tx then (add [ "multi" ]; in_tx := true) else (add [ "exec" ]; in_tx := false)
     | _ -> add (gen_cmd st))
  done;
  if !in_tx then add [ "exec" ];
  let cmds = List.rev !cmds in
  let ncmd = List.length cmds in
  let cuts = (0, 0) :: (if ncmd > 2 && rnd_int st 3 = 0 then [ (1 + rnd_int st (ncmd - 1), 700) ] else []) in
  { cfg; startdb = (if cfg.resume && rnd_int st (if cfg.tdb = 0 then 2 else 3) = 0 then rnd_pick st [ 1; 2; 3 ] else 0); base = rnd_pick st [ 0; 1000; 123456789 ]; cmds; cuts }

let to_line (cs : case) =
  let rb = raws_of cs in
  let n = List.length rb in
  let segs = List.mapi (fun si (start, pause) ->
    let stop = (match List.nth_opt cs.cuts (si + 1) with Some (s, _) -> s | None -> n) in
    let b = Buffer.create 64 in
    List.iteri (fun i (_, bytes) -> if i >= start && i < stop then Buffer.add_string b bytes) rb;
    hex_of_string (Buffer.contents b) ^ "@" ^ string_of_int pause) cs.cuts in
  (* streams of more than 1000 commands run with metric = true and a one-slot delay-sampling channel (sender.delay_channel_size) *)
  Printf.sprintf "inc %s|%d %d %d %s" (cfg_str cs.cfg) (if List.length cs.cmds > 1000 then 1 else 0) cs.startdb cs.base (String.concat " " segs)

let show (cs : case) =
  Printf.sprintf "cfg[%s]%s startdb=%d base=%d stream: %s" (cfg_str cs.cfg) (if List.length cs.cmds > 1000 then " metric=true sender.delay_channel_size=1" else "") cs.startdb cs.base
    (let s = String.concat " / " (List.map (fun (ws, nl) -> (if nl > 0 then Printf.sprintf "(%d nl) " nl else "") ^ String.concat " " ws) cs.cmds) in
     if String.length s > 3000 then String.sub s 0 3000 ^ Printf.sprintf " ... (%d commands)" (List.length cs.cmds) else s)

(* ---- what the model says ---- *)
let model_items (cs : case) : item list option =
  let c = model_cfg cs.cfg in
  match parse_all c (z_of_int cs.base) pst0 (List.map fst (raws_of cs)) with
  | Some items -> Some (start_items (z_of_int cs.base) (z_of_int cs.startdb) @ items)
  | None -> None

(* observed groups: "cmdhex,arghex,...;cmd...  group2 ..." -> list of groups of (cmd, args) *)
let parse_obs (obs : string list) : int * (string * string list) list list =
  match obs with
  | pending :: groups ->
      (int_of_string pending,
       if groups = [ "none" ] then [] else
       List.map (fun g -> if g = "empty" then [] else
         List.map (fun c -> match String.split_on_char ',' c with
           | cmd :: args -> (string_of_hex cmd, List.map string_of_hex args) | [] -> ("", [])) (String.split_on_char ';' g)) groups)
  | [] -> (0, [])

let item_pair (i : item) = (string_of_bytes i.it_cmd, List.map string_of_bytes i.it_args)
let ckpt = "redis-shake-checkpoint"

(* strip sendFunc's wrapper from an observed group *)
let unwrap (resume : bool) (g : (string * string list) list) =
  if resume && (match g with ("multi", []) :: _ -> true | _ -> false) then begin
    let body = List.tl g in
    let body = (match List.rev body with ("exec", []) :: r -> List.rev r | _ -> body) in
    let is_ck = function ("hset", k :: f :: _) -> k = ckpt && String.length f > 9 && String.sub f 0 9 = "src:6379-" | _ -> false in
    let rec strip l = match List.rev l with x :: r when is_ck x -> strip (List.rev r) | _ -> l in
    strip body
  end else g
