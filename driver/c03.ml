(* c03.ml — oracle for C03: forwarded stream = filtered stream, in order, exactly once, right db, flushed. *)
open Glue
open Frame
open Model
open Incrgen

type case = Incrgen.case
let id = "C03"
let rule = "RESP replication streams (SELECT switches incl. filtered and repeated dbs, single/multi-key writes, PING, MULTI/EXEC blocks, sentinel hello \
publishes, eval/script, opinfo, keep-alive newlines, upper/lower-case names) x 11 configurations (db/key/lua filters, target.db in {-1,0,2,5}, target.db with resume, target.db naming a database the lists exclude, resume on/off, \
sender count 1/2/3/100, sender size 40/1e6) x resumed start db x a 700 ms pause inside the stream (ticker flushes), plus a stream of 2100 commands with metric = true and a one-slot delay-sampling channel; fed through the real \
parser/sender goroutine pair (hooks) into a recording connection; non-trivial = at least one forwarded command and one barrier or threshold flush; distinct by wire line"

let gen st tier =
  let per = if tier = "thorough" then 400 else 50 in
  List.concat_map (fun cfg -> List.init per (fun _ -> gen_case st cfg)) configs

(* F10 witness: target.db = 2 and the first source select is `select 2` *)
(* configuration 3: sender.count = 1, no resume - the send id advances by exactly one per command, so it does reach the multiples of 1000
   at which a full delay-sampling channel is consulted *)
let long_stream n = { cfg = List.nth configs 3; startdb = 0; base = 1000;
                      cmds = ([ "select"; "0" ], 0) :: List.init n (fun i -> ((if i mod 7 = 3 then [ "incr"; "a1" ] else [ "set"; "a2"; string_of_int i ]), 0)); cuts = [ (0, 0) ] }
let corpus = [ { cfg = List.nth configs 3; startdb = 0; base = 0; cmds = [ ([ "select"; "2" ], 0); ([ "set"; "a1"; "v" ], 0) ]; cuts = [ (0, 0) ] };
               (* more than 1000 commands with the metric path on and a full delay-sampling channel: nothing may stall *)
               long_stream 2100 ]
let to_line = Incrgen.to_line
let show = Incrgen.show

let classify (cs : case) =
  match model_items cs with
  | Some items ->
      let surv = survive BNo items in
      if surv = [] then None else
      Some (Printf.sprintf "cfg%d:%s" (let rec idx i = function [] -> -1 | x :: r -> if x = cs.cfg then i else idx (i + 1) r in idx 0 configs)
              (if List.length cs.cuts > 1 then "tick" else if List.exists (fun (w, _) -> List.mem (lower (List.hd w)) [ "select"; "multi" ]) cs.cmds then "barrier" else "plain"))
  | None -> None

let fail kind sig_ model impl detail = Fail { kind; sig_; model; impl; detail }

(* independent reference: walk the source commands *)
let reference (cs : case) : (int * string * string list) list =
  let c = cs.cfg in
  let has_prefix k p = String.length k >= String.length p && String.sub k 0 (String.length p) = p in
  let key_ok k = if has_prefix k ckpt then false else if c.keyblack <> [] then not (List.exists (has_prefix k) c.keyblack)
    else if c.keywhite <> [] then List.exists (has_prefix k) c.keywhite else true in
  let db_ok n = let s = string_of_int n in if c.dbblack <> [] then not (List.mem s c.dbblack) else if c.dbwhite <> [] then List.mem s c.dbwhite else true in
  let keyfilter = c.keyblack <> [] || c.keywhite <> [] in
  let sdb = ref (if cs.startdb <> 0 then cs.startdb else 0) and byp = ref false in
  let out = ref [] in
  List.iter (fun (ws, _) ->
    let cmd = lower (List.hd ws) and args = List.tl ws in
    let tdb = if c.tdb = -1 then !sdb else c.tdb in
    if cmd = "select" then (let n = int_of_string (List.hd args) in sdb := n; byp := not (db_ok n))
    else if cmd = "multi" || cmd = "exec" then ()
    else if !byp then ()
    else if cmd = "opinfo" || (c.lua && List.mem cmd [ "eval"; "evalsha"; "script" ]) then ()
    else if cmd = "publish" && lower (List.hd args) = "__sentinel__:hello" then ()
    else begin
      (* key filtering by the table classes used in the generator *)
      let keep args' = out := (tdb, cmd, args') :: !out in
      if not keyfilter then keep args else
      match cmd with
      | "set" | "hset" | "lpush" | "incr" -> if key_ok (List.hd args) then keep args
      | "del" | "unlink" -> let ks = List.filter key_ok args in if ks <> [] then keep ks
      | "mset" -> let rec prs = function k :: v :: r -> (if key_ok k then [ k; v ] else []) @ prs r | _ -> [] in
                  let a = prs args in if a <> [] then keep a
      | _ -> keep args
    end) cs.cmds;
  List.rev !out

let judge (cs : case) obs =
  let impl = String.concat " " obs in
  let (pending, groups) = parse_obs obs in
  let flat = List.concat_map (unwrap cs.cfg.resume) groups in
  (* interpret SELECTs *)
  let cdb = ref 0 in
  let delivered = List.filter_map (fun (cmd, args) ->
    if lower cmd = "select" then (cdb := int_of_string (List.hd args); None) else Some (!cdb, cmd, args)) flat in
  let show_d l = String.concat " | " (List.map (fun (d, c, a) -> Printf.sprintf "db%d %s %s" d c (String.concat " " a)) l) in
  let expected = reference cs in
  let model = match model_items cs with
    | Some items -> String.concat " | " (List.map (fun i -> let (c, a) = item_pair i in c ^ " " ^ String.concat " " a) (survive BNo items))
    | None -> "abort" in
  if pending <> 0 then fail "oracle" "not-flushed" (show_d expected) impl "commands were sent but never flushed within two ticker periods"
  else if delivered <> expected then
    fail "oracle" (if cs.cfg.tdb <> -1 then "targetdb-stream" else "stream") (show_d expected) (show_d delivered)
      "the commands applied on the target (with their databases) differ from the filtered source stream"
  else begin
    let flat_s = String.concat " | " (List.map (fun (c, a) -> c ^ " " ^ String.concat " " a) flat) in
    if flat_s <> model then fail "diff" "incr-model" model flat_s "forwarded commands differ from the model (parser + sender)" else Agree
  end
