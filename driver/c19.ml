(* c19.ml — dynamic leg of C19: run the real start / sync / restore / rump / dump paths with
   sentinel passwords, capture everything logged and the status documents, search for the sentinels. *)
open Glue
open Frame
open Model

type case = { scenario : string; srcpw : string; tgtpw : string; level : string; units : unit_ list; cmds : string list list }

let id = "C19"
let rule = "scenarios sync (NewDbSyncer + Sync: start banner, checkpoint load, PSYNC with AUTH, full sync through the worker pool, incremental sync, a dropped source \
connection and its re-established PSYNC), restore, rump, dump, restart (a source refusing connections: the syncer restarts itself until its failure budget is used up and aborts) tcluster (a cluster TARGET with no reachable start node, at debug and info level: the restore aborts), and cluster (a cluster source with no reachable master: topology re-discovery gives up after its retry budget and the run aborts; output captured through a side file), each with distinct random sentinel passwords for source and target (printable, with spaces, quotes, \
percent signs, JSON-special characters; also empty) x log level error/info/debug; all bytes written through pkg/libs/log and the documents GetSafeOptions / GetExtraInfo \
(JSON and %v) are searched for the sentinels; the run must really have authenticated with them (AUTH seen by the fakes); a tenth of the cases each with only the source or only the target password set; a third of the restore / sync / rump / dump scenarios against servers that REJECT the AUTH command (the failure path of authentication); non-trivial = at least one password non-empty; distinct by wire line"

let bs = bytes_of_string
let raw s = SRaw ((if String.length s < 64 then L6 else L14), bs s)
let sentinel st tag =
  tag ^ (match rnd_int st 5 with
    | 0 -> "S3cr3t-" ^ rnd_string_of st "ABCDEFGHJKLMNPQRSTUVWXYZ23456789" 12
    | 1 -> "pw with space " ^ rnd_string_of st "abcdefgh" 8
    | 2 -> "p%v%s%d\"q'" ^ rnd_string_of st "xyz" 6
    | 3 -> "{\"json\":1}\\" ^ rnd_string_of st "0123456789" 8
    | _ -> rnd_string_of st "abcdefghijklmnopqrstuvwxyzABCDEFGHIJKLMNOPQRSTUVWXYZ0123456789!#$&*+-./:;<=>?@^_~" 24)

(* "<scenario>+noauth": the same scenario against a source and a target that answer AUTH with an error *)
let base c = match String.index_opt c.scenario '+' with Some i -> String.sub c.scenario 0 i | None -> c.scenario

let gen_case st scenario =
  let units = [ USelect (L6, n_of_int 0); UKey (raw "k1", VStr (N0, raw "v1")); UKey (raw "k2", VHash (L6, [ (raw "f", raw "v") ]));
                USelect (L6, n_of_int 3); UKey (raw ("k" ^ string_of_int (rnd_int st 100)), VStr (N0, raw "x")) ] in
  let cmds = [ [ "select"; "0" ]; [ "set"; "a"; "1" ]; [ "set"; "b"; "2" ]; [ "select"; "3" ]; [ "lpush"; "l"; "x"; "y" ]; [ "set"; "c"; "3" ]; [ "ping" ]; [ "set"; "d"; "4" ] ] in
  (* one password only: a tenth of the cases each way (an unauthenticated source with a protected target is the normal restore setup) *)
  let only = rnd_int st 10 in
  { scenario; srcpw = (if only = 0 then "" else sentinel st "SRC"); tgtpw = (if only = 1 then "" else sentinel st "TGT");
    level = rnd_pick st [ "debug"; "debug"; "info"; "error" ]; units; cmds }

let gen st tier =
  let n = if tier = "thorough" then 400 else 48 in
  List.init n (fun i -> gen_case st (List.nth [ "sync"; "sync"; "restore"; "rump"; "dump"; "sync"; "restore+noauth"; "sync+noauth"; "rump+noauth"; "dump+noauth"; "sync"; "restore" ] (i mod 12)))
  @ List.init (if tier = "thorough" then 4 else 1) (fun _ -> { (gen_case st "cluster") with level = "error" })
  @ List.init (if tier = "thorough" then 4 else 1) (fun _ -> { (gen_case st "restart") with level = "error" })
  @ List.init (if tier = "thorough" then 6 else 2) (fun i -> { (gen_case st "tcluster") with level = (if i mod 2 = 0 then "debug" else "info") })

let corpus = [ { (gen_case (Random.State.make [| 19 |]) "sync") with srcpw = "SRC-sentinel-0001"; tgtpw = "TGT-sentinel-0002"; level = "info" };
               { (gen_case (Random.State.make [| 20 |]) "restore") with srcpw = ""; tgtpw = "TGT-sentinel-0003"; level = "info" };
               { (gen_case (Random.State.make [| 21 |]) "sync") with srcpw = "SRC-sentinel-0004"; tgtpw = ""; level = "info" };
               { (gen_case (Random.State.make [| 22 |]) "restore+noauth") with srcpw = "SRC-sentinel-0005"; tgtpw = "TGT-sentinel-0006"; level = "info" };
               { (gen_case (Random.State.make [| 23 |]) "sync+noauth") with srcpw = "SRC-sentinel-0007"; tgtpw = "TGT-sentinel-0008"; level = "info" } ]

let dump_payload = string_of_bytes (encode_dump Valgen.fmt_g17 (LString (bs "v")))
let to_line c =
  Printf.sprintf "%s %s %s %s %s %s" c.scenario (C02.hexd c.srcpw) (C02.hexd c.tgtpw) c.level
    (hex_of_string (if base c = "rump" then dump_payload else Rdbgen.image 9 c.units))
    (C02.hexd (String.concat "" (List.map Incrgen.resp_bytes c.cmds)))
let show c = Printf.sprintf "%s at log level %s; source password %S, target password %S" c.scenario c.level c.srcpw c.tgtpw
let classify c = if c.srcpw = "" && c.tgtpw = "" then None else Some (c.scenario ^ ":" ^ c.level ^ (if c.srcpw = "" then ":target-only" else if c.tgtpw = "" then ":source-only" else ""))

let fail kind sig_ model impl detail = Fail { kind; sig_; model; impl; detail }

let judge c obs =
  let impl = let s = String.concat " " obs in if String.length s > 1500 then String.sub s 0 1500 ^ "..." else s in
  let has_sub s sub = let n = String.length sub in let rec go i = i + n <= String.length s && (String.sub s i n = sub || go (i + 1)) in n > 0 && go 0 in
  if base c = "cluster" || base c = "restart" || base c = "tcluster" then begin
    (* the start path gives up (no master reachable) and exits: what it printed is in the side file *)
    match Srcgen.field obs "abort", Srcgen.field obs "side" with
    | Some _, Some h ->
        let out = string_of_hex h in
        if has_sub out c.srcpw then fail "oracle" (c.scenario ^ ":source-password-in-log") "no occurrence of either password" (String.escaped (if String.length out > 600 then String.sub out (String.length out - 600) 600 else out)) "the source password appears in the output of the aborting run"
        else if has_sub out c.tgtpw then fail "oracle" (c.scenario ^ ":target-password-in-log") "no occurrence of either password" (String.escaped (if String.length out > 600 then String.sub out (String.length out - 600) 600 else out)) "the target password appears in the output of the aborting run"
        else if not (has_sub out (if c.scenario = "cluster" then "master" else if c.scenario = "tcluster" then "cluster" else "max amount of failures")) then fail "diff" "scenario-incomplete" "the give-up message" impl "the scenario did not reach its give-up message"
        else Agree
    | _ -> fail "diff" "scenario-incomplete" "abort with captured output" impl "the cluster scenario did not end in the expected abort"
  end else
  if Srcgen.field obs "abort" <> None || Srcgen.field obs "panic" <> None then fail "diff" "scenario-abort" "" impl "the scenario aborted (harness)"
  else match Srcgen.field obs "leaks" with
  | Some "-" ->
      (* the run must have used the passwords, otherwise the absence of a leak means nothing *)
      let geti n = match Srcgen.field obs n with Some v -> int_of_string v | None -> 0 in
      if c.tgtpw <> "" && base c <> "dump" && geti "tgtauth" = 0 then fail "diff" "scenario-no-auth" "AUTH on the target" impl "the scenario never authenticated against the target: it does not exercise the password path"
      else if base c = "sync" && c.srcpw <> "" && geti "srcauth" < 2 then fail "diff" "scenario-no-auth" "AUTH on the source for the first and the re-established connection" impl "the sync scenario did not authenticate twice against the source"
      else if base c = "sync" && geti "keys" < 6 then fail "diff" "scenario-incomplete" "at least 6 target keys" impl "the sync scenario did not run through full and incremental sync"
      else Agree
  | Some l ->
      let first = List.hd (String.split_on_char ',' l) in
      (match String.split_on_char ':' first with
       | [ where; which; ctx ] ->
           fail "oracle" (Printf.sprintf "%s:%s-password-in-%s" c.scenario which (if String.length where >= 3 && String.sub where 0 3 = "doc" then "status-document" else "log"))
             "no occurrence of either password" (Printf.sprintf "%s: ...%s..." where (String.escaped (string_of_hex ctx)))
             (Printf.sprintf "the %s password appears in %s" which (if where = "log" then "the log output" else "a status document"))
       | _ -> fail "oracle" "password-leak" "" impl "a password appears in the output")
  | None -> fail "diff" "no-observation" "" impl "the scenario produced no leak report"
