(* c16.ml — cases, model runs and oracle for C16 (rump: scan, dump, restore). *)
open Glue
open Frame
open Model
open Valgen

type skey_ = { key : string; payload : string; pttl : int; vanish : string; value : logical option }
type case = {
  tdb : int; policy : string; threshold : int; dbblack : string list; dbwhite : string list; keyblack : string list; keywhite : string list;
  scancount : int; src : (int * skey_ list list) list;
  tgt : (int * string * C02.pre) list; note : string;
  keyfile : string list option (* scan.key_file: the lines of the file (keys looked up in the single source database) *) }

let id = "C16"
let rule = "source keyspaces of 1..4 databases with 0..25 keys each (plain and compact encodings, payload sizes around the big-key threshold), SCAN paginations with \
empty pages, single-key pages and pages larger/smaller than scan.key_number, keys gone before DUMP / between DUMP and PTTL / never existing, ttl none / positive, \
x big-key threshold (1, median payload, huge) x key_exists none/rewrite x target.db x db/key lists x scan.key_number in {1,3,100}; the real rump executor \
(hook: fetcher, writer, receiver, scanner) from a fakeredis source to a fakeredis target in child processes; separate sub-streams: a key returned twice by SCAN, \
a busy target key under rewrite with a big key, scans driven by a key file (scan.key_file) of 0..9 lines against scan.key_number 1..3 (multiples and off-by-one, lines naming keys that do not exist); non-trivial = at least 2 databases or a vanished key or a big key; distinct by wire line"

let bs = bytes_of_string
let gen_value st =
  if rnd_int st 3 = 0 then
    let rec pick () = match gen_compact st with
      | (_, t, body, Some v) when C02.nonempty v && C02.distinct (C02.no_nan v) = v && not (t = 9 && (match v with LHash l -> List.length l >= 254 || List.exists (fun (a, b) -> List.length a >= 253 || List.length b >= 253) l | _ -> false)) -> (C02.payload_of t body, v)
      | _ -> pick () in pick ()
  else
    let v = C02.distinct (C02.no_nan (gen_logical st)) in
    let v = if C02.nonempty v then v else LString (bs "s") in
    (string_of_bytes (encode_dump fmt_g17 v), v)

let gen_case st =
  let ndb = 1 + rnd_int st 4 in
  let dbs = List.sort_uniq compare (List.init ndb (fun _ -> rnd_pick st [ 0; 1; 2; 5; 15 ])) in
  let ctr = ref 0 in
  let src = List.map (fun db ->
    let nk = rnd_pick st [ 0; 1; 2; 5; 10; 25 ] in
    let keys = List.init nk (fun _ ->
      incr ctr;
      let name = (rnd_pick st [ "k"; "k"; "ab"; "user:"; "redis-shake-checkpoint" ]) ^ string_of_int !ctr in
      let (payload, v) = gen_value st in
      match rnd_int st 10 with
      | 0 -> { key = name; payload; pttl = -2; vanish = "dump"; value = None }
      | 1 -> { key = name; payload; pttl = -2; vanish = "pttl"; value = None }
      | 2 -> { key = name; payload = ""; pttl = -2; vanish = "-"; value = None }
      | _ -> { key = name; payload; pttl = rnd_pick st [ -1; -1; 1; 5000 + rnd_int st 100000 ]; vanish = "-"; value = Some v }) in
    (* cut into pages *)
    let rec cut l = match l with
      | [] -> if rnd_int st 3 = 0 then [ [] ] else []
      | _ -> let k = rnd_pick st [ 0; 1; 1; 2; 3; 7 ] in
             let k = min k (List.length l) in
             let rec take n l = if n = 0 then ([], l) else match l with x :: r -> let (a, b) = take (n - 1) r in (x :: a, b) | [] -> ([], []) in
             let (a, b) = take k l in a :: cut b in
    let pages = cut keys in
    (db, if pages = [] then [ [] ] else pages)) dbs in
  let sizes = List.sort compare (List.concat_map (fun (_, ps) -> List.map (fun k -> String.length k.payload) (List.concat ps)) src) in
  let median = if sizes = [] then 10 else List.nth sizes (List.length sizes / 2) in
  let (dbblack, dbwhite) = match rnd_int st 4 with
    | 0 -> ([ string_of_int (rnd_pick st dbs) ], []) | 1 -> ([], [ string_of_int (rnd_pick st dbs); "1" ]) | _ -> ([], []) in
  let (keyblack, keywhite) = match rnd_int st 4 with 0 -> ([ "ab" ], []) | 1 -> ([], [ "k"; "user:" ]) | _ -> ([], []) in
  let policy = rnd_pick st [ "none"; "rewrite" ] in
  let tdb = rnd_pick st [ -1; -1; 3 ] in
  let tgt = if policy = "rewrite" && rnd_int st 3 = 0 then
      List.filteri (fun i _ -> i < 2) (List.filter_map (fun (db, k) -> if k.pttl <> -2 && rnd_bool st then
          Some ((if tdb = -1 then db else tdb), k.key, rnd_pick st [ { C02.pkind = "list"; pval = LList [ bs "old" ]; pttl = 0 }; { C02.pkind = "string"; pval = LString (bs "old"); pttl = 900 };
                                        { C02.pkind = "hash"; pval = LHash [ (bs "of", bs "ov") ]; pttl = 0 } ]) else None)
        (List.concat_map (fun (db, pages) -> List.map (fun k -> (db, k)) (List.concat pages)) src))
    else [] in
  { tdb; policy; threshold = rnd_pick st [ 1; max 1 median; 1000000000; 1000000000 ];
    dbblack; dbwhite; keyblack; keywhite; scancount = rnd_pick st [ 1; 3; 100 ]; src; tgt; note = ""; keyfile = None }

let base = { tdb = -1; policy = "rewrite"; threshold = 1000000000; dbblack = []; dbwhite = []; keyblack = []; keywhite = []; scancount = 100; src = []; tgt = []; note = ""; keyfile = None }
(* a key file drives the scan: n lines (0, 1, multiples of scan.key_number and off-by-one), some naming keys that do not exist;
   the source database additionally holds a key the file does not name *)
let gen_keyfile_case st =
  let count = rnd_pick st [ 1; 2; 3 ] in
  let n = rnd_pick st [ 0; 1; count; count + 1; 2 * count; 2 * count + 1; 3 * count ] in
  let db = rnd_pick st [ 0; 0; 2 ] in
  let lines = List.init n (fun i -> if rnd_int st 5 = 0 then Printf.sprintf "gone%d" i else Printf.sprintf "kf%d" i) in
  let existing = List.filter_map (fun name -> if String.sub name 0 2 = "kf" then
      (let (payload, v) = gen_value st in Some { key = name; payload; pttl = rnd_pick st [ -1; -1; 40000 ]; vanish = "-"; value = Some v }) else None) lines in
  (* blank lines (a key named "" that does not exist): in the middle and at the end *)
  let lines = if rnd_int st 3 = 0 && n > 0 then
      (let pos = rnd_int st (n + 1) in List.concat (List.mapi (fun i l -> if i = pos then [ ""; l ] else [ l ]) lines) @ (if pos >= n || rnd_bool st then [ "" ] else []))
    else lines in
  let extra = { key = "unlisted"; payload = fst (gen_value st); pttl = -1; vanish = "-"; value = None } in
  { base with policy = rnd_pick st [ "none"; "rewrite" ]; scancount = count; src = [ (db, [ existing @ [ extra ] ]) ]; keyfile = Some lines;
              note = Printf.sprintf "key file of %d lines (%d blank), scan.key_number %d" (List.length lines) (List.length (List.filter (fun l -> l = "") lines)) count }

let gen st tier = List.init (if tier = "thorough" then 2500 else 160) (fun _ -> gen_case st)
                  @ List.init (if tier = "thorough" then 300 else 24) (fun _ -> gen_keyfile_case st)

let lst l = string_of_bytes (encode_dump fmt_g17 (LList (List.map bs l)))
let corpus = [
  (* F18: a big list key over a busy target key under rewrite *)
  { base with threshold = 1; src = [ (0, [ [ { key = "k"; payload = lst [ "a" ]; pttl = -1; vanish = "-"; value = Some (LList [ bs "a" ]) } ] ]) ];
              tgt = [ (0, "k", { C02.pkind = "list"; pval = LList [ bs "old" ]; pttl = 0 }) ]; note = "F18 witness: big key over a busy key under rewrite" };
  (* F26: SCAN returns a key twice, key_exists = none *)
  { base with policy = "none";
              src = (let k = { key = "k"; payload = lst [ "a" ]; pttl = -1; vanish = "-"; value = Some (LList [ bs "a" ]) } in [ (0, [ [ k ]; [ k ] ]) ]);
              note = "F26 witness: a key returned twice by SCAN under key_exists=none" };
  (* a key file with a blank line inside a page that is not the last one *)
  { base with scancount = 4;
              src = [ (0, [ List.init 10 (fun i -> { key = Printf.sprintf "kf%d" i; payload = lst [ string_of_int i ]; pttl = -1; vanish = "-"; value = Some (LList [ bs (string_of_int i) ]) }) ]) ];
              keyfile = Some ([ "kf0"; "kf1"; "" ] @ List.init 8 (fun i -> Printf.sprintf "kf%d" (i + 2)));
              note = "key file with a blank line in its first page" } ]

let hexd = C02.hexd
let hexl l = if l = [] then "-" else String.concat "," (List.map hex_of_string l)
let to_line c =
  Printf.sprintf "rump %d|%s|%d|%s|%s|%s|%s|%d %s %s" c.tdb c.policy c.threshold (hexl c.dbblack) (hexl c.dbwhite) (hexl c.keyblack) (hexl c.keywhite) c.scancount
    (if c.src = [] then "-" else String.concat "/" (List.map (fun (db, pages) -> Printf.sprintf "%d:%s" db
        (String.concat ";" (List.map (fun p -> String.concat "," (List.map (fun k -> Printf.sprintf "%s~%s~%d~%s" (hexd k.key) (hexd k.payload) k.pttl k.vanish) p)) pages))) c.src))
    (if c.tgt = [] then "-" else String.concat ";" (List.map (fun (db, k, (p : C02.pre)) -> Printf.sprintf "%d:%s:%s:%s:%d" db (hexd k) p.pkind (C02.content p.pval) p.pttl) c.tgt))
  ^ (match c.keyfile with None -> "" | Some lines -> " kf=" ^ String.concat "," (List.map hexd lines))
let show c =
  Printf.sprintf "%starget.db=%d key_exists=%s big_key_threshold=%d db.black=[%s] db.white=[%s] key.black=[%s] key.white=[%s] scan.key_number=%d; source: %s; target before: %d key(s)"
    (if c.note = "" then "" else c.note ^ "; ") c.tdb c.policy c.threshold (String.concat "," c.dbblack) (String.concat "," c.dbwhite) (String.concat "," c.keyblack) (String.concat "," c.keywhite) c.scancount
    (String.concat " | " (List.map (fun (db, pages) -> Printf.sprintf "db%d pages %s" db
        (String.concat ";" (List.map (fun p -> "[" ^ String.concat "," (List.map (fun k -> Printf.sprintf "%s(%dB,pttl %d%s)" k.key (String.length k.payload) k.pttl (if k.vanish = "-" then "" else ",gone at " ^ k.vanish)) p) ^ "]") pages))) c.src))
    (List.length c.tgt)

(* the key occurrences the scan returns, with what the source answers for them *)
let all_keys c =
  match c.keyfile with
  | None -> List.concat_map (fun (db, pages) -> List.map (fun k -> (db, k)) (List.concat pages)) c.src
  | Some lines ->
      let (db, pages) = List.hd c.src in
      let have = List.concat pages in
      List.map (fun name -> match List.find_opt (fun k -> k.key = name) have with
        | Some k -> (db, k) | None -> (db, { key = name; payload = ""; pttl = -2; vanish = "-"; value = None })) lines
let classify c =
  let ks = all_keys c in
  let big = List.exists (fun (_, k) -> String.length k.payload >= c.threshold && k.pttl <> -2) ks in
  let gone = List.exists (fun (_, k) -> k.pttl = -2) ks in
  if c.keyfile <> None then Some (Printf.sprintf "keyfile:%s:scan%d" c.policy c.scancount) else
  if List.length c.src < 2 && not big && not gone then None else
  Some (Printf.sprintf "%ddb%s%s:%s:scan%d" (List.length c.src) (if big then "+big" else "") (if gone then "+gone" else "") c.policy c.scancount)

let fail kind sig_ model impl detail = Fail { kind; sig_; model; impl; detail }

let fcfg_of c = { key_black = List.map bs c.keyblack; key_white = List.map bs c.keywhite; db_black = List.map bs c.dbblack; db_white = List.map bs c.dbwhite;
                  slot_list = []; filter_lua = false }
let rcfg_of c = { r_f = fcfg_of c; r_tdb = z_of_int c.tdb; r_threshold = z_of_int c.threshold; r_rewrite = (c.policy = "rewrite") }
let mkey k = { sk_key = bs k.key; sk_dump = (if k.vanish = "dump" || (k.pttl = -2 && k.vanish = "-") then None else Some (bs k.payload)); sk_pttl = z_of_int k.pttl }
let msrc c =
  match c.keyfile with
  | None -> List.map (fun (db, pages) -> { sd_db = z_of_int db; sd_pages = List.map (List.map mkey) pages }) c.src
  | Some _ -> let (db, _) = List.hd c.src in [ { sd_db = z_of_int db; sd_pages = [ List.map (fun (_, k) -> mkey k) (all_keys c) ] } ]

let has_prefix k p = String.length k >= String.length p && String.sub k 0 (String.length p) = p
let judge c obs =
  let impl = let s = String.concat " " obs in if String.length s > 2000 then String.sub s 0 2000 ^ "..." else s in
  let aborted = Srcgen.field obs "abort" <> None || Srcgen.field obs "panic" <> None in
  let special = if c.tgt <> [] then "busy-target" else
      (let ks = List.map (fun (db, k) -> (db, k.key)) (all_keys c) in if List.length (List.sort_uniq compare ks) <> List.length ks then "duplicate-scan" else "") in
  (* the property, from the case alone *)
  let db_ok db = let s = string_of_int db in if c.dbblack <> [] then not (List.mem s c.dbblack) else if c.dbwhite <> [] then List.mem s c.dbwhite else true in
  let key_ok k = if c.keyblack = [] && c.keywhite = [] then true else
      if has_prefix k "redis-shake-checkpoint" then false else if c.keyblack <> [] then not (List.exists (has_prefix k) c.keyblack) else List.exists (has_prefix k) c.keywhite in
  let want = List.filter_map (fun (db, k) ->
      if db_ok db && key_ok k.key && k.pttl <> -2 then
        Some (((if c.tdb = -1 then db else c.tdb), k.key), (k, (if k.pttl = -1 then 0 else k.pttl))) else None) (all_keys c) in
  let expect = Printf.sprintf "%d keys: %s" (List.length want) (String.concat " " (List.map (fun ((d, k), (_, t)) -> Printf.sprintf "db%d/%s(ttl %d)" d k t) want)) in
  let sg what = if special <> "" then Printf.sprintf "%s:%s:%s" special c.policy what else what in
  if aborted then fail "oracle" (sg "abort") expect impl "the rump run aborted"
  else if Srcgen.field obs "ret" <> Some "ok" then fail "oracle" (sg "no-termination") expect impl "the rump run did not terminate after the last scan cursor"
  else begin
    let state = match Srcgen.field obs "state" with
      | None | Some "-" -> []
      | Some s -> List.map (fun e -> match String.split_on_char ':' e with
          | [ d; k; kind; ct; ttl ] -> ((int_of_string d, C02.unhexd k), (kind, ct, int_of_string ttl)) | _ -> failwith "state entry") (String.split_on_char ';' s) in
    let bad = ref None in
    let set s d = if !bad = None then bad := Some (s, d) in
    List.iter (fun ((d, k), ((sk : skey_), ttl)) ->
      match List.assoc_opt (d, k) state with
      | None -> set "key-missing" (Printf.sprintf "db%d/%s was scanned, passes the filters and exists, but is not on the target" d k)
      | Some (kind, ct, t) ->
          if t <> ttl then set "ttl" (Printf.sprintf "db%d/%s has ttl %d on the target, %d on the source" d k t ttl)
          else begin
            let src_v = match sk.value with Some v -> Some (C02.canon_t (TLog (norm v))) | None -> None in
            let got_v = Option.map C02.canon_t (C02.parse_content kind ct) in
            if kind = "dump" && C02.unhexd ct <> sk.payload && got_v <> src_v then set "value" (Printf.sprintf "db%d/%s holds a different payload" d k)
            else if kind <> "dump" && got_v <> src_v then set "value" (Printf.sprintf "db%d/%s: %s on the target, %s on the source" d k
                      (match got_v with Some v -> C02.show_t v | None -> "?") (match src_v with Some v -> C02.show_t v | None -> "?"))
          end) want;
    List.iter (fun ((d, k), _) -> if not (List.mem_assoc (d, k) want) && not (List.exists (fun (d', k', _) -> d' = d && k' = k) c.tgt) then
                                    set "key-extra" (Printf.sprintf "db%d/%s is on the target but was filtered, vanished or never scanned" d k)) state;
    match !bad with
    | Some (s, d) -> fail "oracle" (sg s) expect impl d
    | None ->
      (* the model's writes, applied to the initial target *)
      if special <> "" then Agree else begin
        let ws = rump (rcfg_of c) (msrc c) in
        let mstate = List.sort compare (List.map (fun w -> ((int_of_z w.rw_db, string_of_bytes w.rw_key), int_of_z w.rw_ttl, w.rw_big)) ws) in
        let ostate = List.sort compare (List.map (fun ((d, k), (kind, _, t)) -> ((d, k), t, kind <> "dump" )) state) in
        (* a big string key is written with SET: the fake stores kind string *)
        if mstate <> ostate then
          fail "diff" "rump-model" (String.concat " " (List.map (fun ((d, k), t, b) -> Printf.sprintf "db%d/%s ttl %d%s" d k t (if b then " big" else "")) mstate))
            (String.concat " " (List.map (fun ((d, k), t, b) -> Printf.sprintf "db%d/%s ttl %d%s" d k t (if b then " big" else "")) ostate))
            "the writes of the model (key, database, ttl, big-key route) differ from the target's final keyspace"
        else Agree
      end
  end
