(* c04.ml — oracle for C04: every flush group is MULTI + commands + checkpoint + EXEC with the right offset. *)
open Glue
open Frame
open Model
open Incrgen

type case = Incrgen.case
let id = "C04"
let rule = "the streams of C03 under the configurations with resume_from_break_point on (4 configurations: thresholds 2/3/100, one with target.db set), incl. resumed \
start databases and ticker flushes; for every observed flush group: wrapper shape, run id / version exactly on the first group per database, \
stored offset = source offset after the group's last command, offsets strictly increasing, no barrier inside a group, group size <= sender.count; \
non-trivial = at least two groups; distinct by wire line"

let resume_cfgs = List.filter (fun c -> c.resume) configs
let gen st tier =
  let per = if tier = "thorough" then 600 else 80 in
  List.concat_map (fun cfg -> List.init per (fun _ -> gen_case st cfg)) resume_cfgs
let corpus = []
let to_line = Incrgen.to_line
let show = Incrgen.show

let classify (cs : case) =
  match model_items cs with
  | Some items -> if List.length (survive BNo items) >= 2 then Some (if List.length cs.cuts > 1 then "tick" else "no-tick") else None
  | None -> None

let fail kind sig_ model impl detail = Fail { kind; sig_; model; impl; detail }

let judge (cs : case) obs =
  let impl = String.concat " " obs in
  let (_, groups) = parse_obs obs in
  let c = model_cfg cs.cfg in
  match model_items cs with
  | None -> fail "diff" "model-abort" "abort" impl ""
  | Some items ->
      let surv = ref (survive BNo items) in
      let seen = ref [] in
      let problem = ref None in
      let last_off = ref (-1) in
      let expected_groups = ref [] in
      List.iteri (fun gi g ->
        if !problem = None then begin
          let body = unwrap true g in
          let n = List.length body in
          (* the items of this group are the next n survivors *)
          let rec take k l = if k = 0 then ([], l) else match l with x :: r -> let (a, b) = take (k - 1) r in (x :: a, b) | [] -> ([], []) in
          let (its, rest) = take n !surv in
          surv := rest;
          if List.map item_pair its <> body then problem := Some ("group-content", Printf.sprintf "group %d does not carry the next surviving commands" gi)
          else begin
            let ((w, seen'), _) = (wire_group c (List.map z_of_int !seen) its, ()) in
            seen := List.map int_of_z seen';
            let exp = List.map (fun (cmd, args) -> (string_of_bytes cmd, List.map string_of_bytes args)) w in
            (* the model's run id is the literal "runid"; the harness uses runid-<k>: compare modulo that field *)
            let norm l = List.map (fun (cmd, args) -> match cmd, args with
              | "hset", [ k; f; _ ] when k = ckpt && f = "src:6379-runid" -> (cmd, [ k; f; "RUNID" ]) | x -> x) l in
            expected_groups := exp :: !expected_groups;
            if norm g <> norm exp then problem := Some ("group-shape", Printf.sprintf "group %d is not MULTI + commands + checkpoint(runid/version first time per db, offset of the last command) + EXEC" gi)
            else begin
              (* barrier rule and threshold *)
              let cmds = List.map fst body in
              if List.exists (fun x -> x = "multi" || x = "exec") cmds then problem := Some ("marker-forwarded", "a source MULTI/EXEC marker was forwarded")
              else if (match cmds with _ :: r -> List.mem "select" r | [] -> false) then problem := Some ("select-inside-group", "a SELECT appears inside a group (the checkpoint db would be wrong)")
              else if n > cs.cfg.scount then problem := Some ("group-too-large", "group larger than sender.count")
              else if its <> [] then begin
                let o = int_of_z (List.nth its (n - 1)).it_off in
                let single_ping = n = 1 && (string_of_bytes (List.hd its).it_cmd) = "ping" in
                if not single_ping then begin
                  if o <= !last_off then problem := Some ("offset-not-increasing", Printf.sprintf "checkpoint offsets do not increase: %d after %d" o !last_off);
                  last_off := o
                end
              end
            end
          end
        end) groups;
      let model = String.concat " " (List.rev_map (fun g -> String.concat ";" (List.map (fun (c, a) -> String.concat "," (List.map hex_of_string (c :: a))) g)) !expected_groups) in
      (match !problem with
       | Some (sg, msg) -> fail "oracle" sg model impl msg
       | None -> if !surv <> [] then fail "oracle" "commands-missing" model impl "some surviving commands never reached the target" else Agree)
