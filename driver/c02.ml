(* c02.ml — cases, model runs and oracle for C02 (RestoreRdbEntry leaves the target key equal to the source key). *)
open Glue
open Frame
open Model
open Valgen

type rec_ = { key : string; typ : int; value : string; expire : int (* 0 none, >0 ms from now, <0 ms before now *);
              idle : int; freq : int; real : int; need : int }
type pre = { pkind : string; pval : logical; pttl : int }
type case = {
  policy : string; replace : bool; threshold : int; filterlua : bool; hashtag : bool; maxtype : int; oldbusy : bool;
  version : string; shift : int; db : int; pre : pre option; recs : rec_ list;
  source : logical option;      (* the source's logical value of the key (None: lua / opaque stream) *)
  desc : string }

let id = "C02"
let rule = "parser records (plain encodings from the cupcake encoder, every compact encoding from the Coq spec encoders: ziplist list/hash/zset, intset, \
zipmap, quicklist, zset2; LZF and integer strings; collection sizes 99/100/101/200/201 in plain AND compact encodings (ziplist list/hash/zset, intset, quicklist nodes); hashes split into chunk records by Spec.key_records with small limits; \
lua script records; opaque stream payloads) x expiry (none / future / past) x key with and without {hash tags} x key_exists in {none, rewrite, ignore} x \
target with/without REPLACE x big-key threshold (0, payload length-1, payload length, 1e6) x target rejecting value types above 0/4/8 ('Bad data format') x \
old/new BUSYKEY wording x target.version strings (5, 5.0, 4.0.14, 2.8, 6, 5.a, empty, 7.0.5) x time shift x pre-existing target key (absent, same type, \
other type, with ttl); real RestoreRdbEntry over TCP against fakeredis in child processes (aborts observed); non-trivial = a pre-existing key or a route other \
than plain RESTORE; distinct by wire line"

let kind_of_logical = function LString _ -> "string" | LList _ -> "list" | LSet _ -> "set" | LHash _ -> "hash" | LZSet _ -> "zset"
let no_nan = function LZSet l -> LZSet (List.map (fun (m, b) -> (m, if is_nan b then bits_of_float 1.5 else b)) l) | v -> v
let rec dedup_fst = function [] -> [] | (k, v) :: r -> (k, v) :: dedup_fst (List.filter (fun (k', _) -> k' <> k) r)
let distinct = function
  | LSet l -> LSet (List.sort_uniq compare l) | LHash l -> LHash (dedup_fst l) | LZSet l -> LZSet (dedup_fst l) | v -> v
let nonempty = function LString _ -> true | LList l | LSet l -> l <> [] | LHash l -> l <> [] | LZSet l -> l <> []

let payload_of t body = string_of_bytes (create_value_dump (byte_of_char (Char.chr t)) (bs body))

let gen_key st = match rnd_int st 5 with
  | 0 -> "{tag}" ^ rnd_string_of st "abc" 3 | 1 -> "a}b{c" ^ rnd_string_of st "xyz" 2 | 2 -> "{{x}}" | _ -> rnd_string_of st "abcdefgh:_" (1 + rnd_int st 8)

let gen_pre st (src : logical option) =
  match rnd_int st 5 with
  | 0 | 1 -> None
  | 2 | 3 ->      (* same type as the source *)
      let v = match src with
        | Some (LString _) | None -> LString (bs "old")
        | Some (LList _) -> LList [ bs "o1"; bs "o2" ]
        | Some (LSet _) -> LSet [ bs "o1"; bs "5" ]
        | Some (LHash _) -> LHash [ (bs "of", bs "ov"); (bs "k", bs "old") ]
        | Some (LZSet _) -> LZSet [ (bs "om", bits_of_float 2.5) ] in
      Some { pkind = kind_of_logical v; pval = v; pttl = rnd_pick st [ 0; 0; 5000 ] }
  | _ -> let v = rnd_pick st [ LString (bs "other"); LList [ bs "x" ]; LHash [ (bs "f", bs "v") ] ] in
         Some { pkind = kind_of_logical v; pval = v; pttl = rnd_pick st [ 0; 7000 ] }

let versions = [ "5"; "5.0"; "4.0.14"; "2.8"; "6"; "5.a"; ""; "7.0.5"; "5.0"; "5.0" ]

let gen_case st =
  let key = gen_key st in
  let expire = rnd_pick st [ 0; 0; 1000 + rnd_int st 100000; 86400000 * 30; - (1 + rnd_int st 100000) ] in
  let idle = rnd_pick st [ 0; 0; 77 ] and freq = rnd_pick st [ 0; 0; 9 ] in
  let mk typ value real need = { key; typ; value; expire; idle; freq; real; need } in
  let (recs, source, desc) =
    match rnd_int st 10 with
    | 0 | 1 | 2 ->
        let v = distinct (no_nan (gen_logical st)) in
        let v = if nonempty v then v else LString (bs "s") in
        let p = string_of_bytes (encode_dump fmt_g17 v) in
        ([ mk (Char.code p.[0]) p 0 1 ], Some v, "plain " ^ kind_of_logical v)
    | 3 ->       (* sizes around the 100-command flush batch *)
        let n = rnd_pick st [ 99; 100; 101; 200; 201 ] in
        let v = match rnd_int st 4 with
          | 0 -> LList (List.init n (fun i -> bs (string_of_int (i mod 7))))
          | 1 -> LSet (List.init n (fun i -> bs ("m" ^ string_of_int i)))
          | 2 -> LHash (List.init n (fun i -> (bs ("f" ^ string_of_int i), bs (gen_str st))))
          | _ -> LZSet (List.init n (fun i -> (bs ("z" ^ string_of_int i), bits_of_float (float_of_int i /. 4.0)))) in
        let p = string_of_bytes (encode_dump fmt_g17 v) in
        ([ mk (Char.code p.[0]) p 0 1 ], Some v, Printf.sprintf "plain %s of %d" (kind_of_logical v) n)
    | 4 when rnd_int st 3 = 0 ->       (* compact encodings with collection sizes around the 100-command flush batch *)
        let n = rnd_pick st [ 99; 100; 101; 199; 200; 201; 250 ] in
        let zs i = ZStr6 (bs (Printf.sprintf "e%d" i)) in
        (match rnd_int st 5 with
         | 0 -> let vals = List.init n zs in
                ([ mk 10 (payload_of 10 (string_of_bytes (rstr st (ziplist st vals)))) 0 1 ], Some (LList (List.map zval_logical vals)), Printf.sprintf "ziplist list of %d" n)
         | 1 -> let vals = List.concat (List.init n (fun i -> [ zs i; ZI16 (z_of_int (i - 50)) ])) in
                let l = List.map zval_logical vals in
                let rec prs = function a :: b :: r -> (a, b) :: prs r | _ -> [] in
                ([ mk 13 (payload_of 13 (string_of_bytes (rstr st (ziplist st vals)))) 0 1 ], Some (LHash (prs l)), Printf.sprintf "ziplist hash of %d" n)
         | 2 -> let ms = List.init n (fun i -> (zs i, bits_of_float (float_of_int i /. 8.0))) in
                let vals = List.concat_map (fun (m, b) -> [ m; ZStr6 (bs (string_of_bytes (fmt_g17 b))) ]) ms in
                ([ mk 12 (payload_of 12 (string_of_bytes (rstr st (ziplist st vals)))) 0 1 ], Some (LZSet (List.map (fun (m, b) -> (zval_logical m, b)) ms)), Printf.sprintf "ziplist zset of %d" n)
         | 3 -> let zs = List.init n (fun i -> string_of_int (i * 7 - 300)) in
                ([ mk 11 (payload_of 11 (string_of_bytes (rstr st (string_of_bytes (enc_intset (n_of_int 4) (List.map z_of_decimal zs)))))) 0 1 ],
                 Some (LSet (List.map bs zs)), Printf.sprintf "intset of %d" n)
         | _ -> let sizes = [ n; 1 + rnd_int st 3; rnd_pick st [ 100; 101; 30 ] ] in
                let ctr = ref 0 in
                let zls = List.map (fun k -> List.init k (fun _ -> incr ctr; zs !ctr)) sizes in
                let body = enc_len (Rdbgen.form st 3) (n_of_int 3) @ List.concat_map (fun vals -> rstr st (ziplist st vals)) zls in
                ([ mk 14 (payload_of 14 (string_of_bytes body)) 0 1 ], Some (LList (List.map zval_logical (List.concat zls))), Printf.sprintf "quicklist with nodes of %d, small, ~100" n))
    | 4 | 5 | 6 ->
        let rec pick () = match gen_compact st with
          | (d, t, body, Some v) when nonempty v && distinct (no_nan v) = no_nan v && no_nan v = v && not (t = 9 && (match v with LHash l -> List.length l >= 254 || List.exists (fun (a, b) -> List.length a >= 253 || List.length b >= 253) l | _ -> false)) -> (d, t, body, v)
          | _ -> pick () in
        let (d, t, body, v) = pick () in
        ([ mk t (payload_of t body) 0 1 ], Some v, d)
    | 7 ->       (* a hash split into chunk records *)
        let n = 3 + rnd_int st 40 in
        let ps = List.init n (fun i -> ("f" ^ string_of_int i, rnd_string_of st "abcdefgh" (rnd_int st 12))) in
        let rps = List.map (fun (f, v) -> (SRaw (Rdbgen.form st (String.length f), bs f), SRaw (Rdbgen.form st (String.length v), bs v))) ps in
        let limit = rnd_pick st [ 10; 40; 100 ] in
        let es = key_records (n_of_int limit) meta0 (SRaw (L6, bs key)) (VHash (Rdbgen.form st n, rps)) in
        (List.map (fun (e : entry) -> mk 4 (string_of_bytes e.e_value) (int_of_n e.e_real_count) (int_of_n e.e_need_len)) es,
         Some (LHash (List.map (fun (f, v) -> (bs f, bs v)) ps)), Printf.sprintf "hash of %d fields in %d chunk records" n (List.length es))
    | 8 -> ([ { (mk 250 "return redis.call('ping')" 0 0) with key = "lua"; expire = 0 } ], None, "lua script record")
    | _ -> ([ mk 15 (payload_of 15 (rnd_string st (5 + rnd_int st 30))) 0 1 ], None, "opaque stream payload") in
  let stream = (List.hd recs).typ = 15 in
  let plen = String.length (List.hd recs).value in
  { policy = rnd_pick st [ "none"; "rewrite"; "rewrite"; "ignore" ]; replace = rnd_bool st;
    threshold = rnd_pick st [ 0; plen - 1; plen; 1000000; 1000000 ]; filterlua = rnd_bool st; hashtag = rnd_int st 3 = 0;
    maxtype = (if stream then 0 else rnd_pick st [ 0; 0; 0; 4; 8 ]); oldbusy = rnd_bool st; version = rnd_pick st versions; shift = rnd_pick st [ 0; 0; 3600000; -3600000 ];
    db = rnd_pick st [ 0; 0; 3; 15 ]; pre = gen_pre st source; recs; source; desc }

let gen st tier = List.init (if tier = "thorough" then 30000 else 1500) (fun _ -> gen_case st)

let base = { policy = "rewrite"; replace = false; threshold = 1000000; filterlua = false; hashtag = false; maxtype = 0; oldbusy = false;
             version = "5.0"; shift = 0; db = 0; pre = None; recs = []; source = None; desc = "" }
let str_rec key s exp = { key; typ = 0; value = string_of_bytes (encode_dump fmt_g17 (LString (bs s))); expire = exp; idle = 0; freq = 0; real = 0; need = 1 }
let corpus = [
  (* F3: target.version "5" *)
  { base with version = "5"; recs = [ str_rec "k" "v" 0 ]; source = Some (LString (bs "v")); desc = "F3 witness: target.version = \"5\"" };
  (* F6: rewrite, no REPLACE, busy key *)
  { base with pre = Some { pkind = "string"; pval = LString (bs "old"); pttl = 0 }; recs = [ str_rec "k" "new" 0 ]; source = Some (LString (bs "new")); desc = "F6 witness: rewrite without REPLACE" };
  (* F7: quicklist + ignore + busy key *)
  (let zl = string_of_bytes (enc_ziplist (n_of_int 0) (n_of_int 0) [ (P1 (n_of_int 0), ZStr6 (bs "a")) ]) in
   let body = string_of_bytes (enc_len L6 (n_of_int 1) @ enc_string (SRaw (L6, bs zl))) in
   { base with policy = "ignore"; pre = Some { pkind = "list"; pval = LList [ bs "o1" ]; pttl = 0 };
     recs = [ { key = "k"; typ = 14; value = payload_of 14 body; expire = 0; idle = 0; freq = 0; real = 0; need = 1 } ]; source = Some (LList [ bs "a" ]); desc = "F7 witness: quicklist + ignore" });
  (* F8: Bad data format fallback with an expiry *)
  { base with maxtype = 4; recs = [ (let v = LZSet [ (bs "m", bits_of_float 1.0) ] in ignore v;
        { key = "k"; typ = 5; value = payload_of 5 (string_of_bytes (enc_len L6 (n_of_int 1) @ enc_string (SRaw (L6, bs "m")) @ le_enc (nat_of_int 8) (bits_of_float 1.0))); expire = 50000; idle = 0; freq = 0; real = 0; need = 1 }) ];
    source = Some (LZSet [ (bs "m", bits_of_float 1.0) ]); desc = "F8 witness: fallback loses the expiry" } ]

let exp_str e = if e = 0 then "0" else if e > 0 then "+" ^ string_of_int e else "-" ^ string_of_int (- e)
let hexd s = if s = "" then "-" else hex_of_string s
let content = function
  | LString s -> hexd (string_of_bytes s)
  | LList l | LSet l -> if l = [] then "_" else String.concat "," (List.map (fun x -> hexd (string_of_bytes x)) l)
  | LHash l -> if l = [] then "_" else String.concat "," (List.map (fun (f, v) -> hexd (string_of_bytes f) ^ "=" ^ hexd (string_of_bytes v)) l)
  | LZSet l -> if l = [] then "_" else String.concat "," (List.map (fun (m, b) -> hexd (string_of_bytes m) ^ "=" ^ hexd (string_of_bytes (fmt_g17 b))) l)

let mcfg c = { c_policy = (match c.policy with "none" -> PNone | "rewrite" -> PRewrite | _ -> PIgnore); c_replace = c.replace;
               c_threshold = n_of_int (max 0 c.threshold); c_filter_lua = c.filterlua; c_hashtag = c.hashtag; c_max_type = n_of_int c.maxtype }
let tkey c k = string_of_bytes (target_key (mcfg c) (bs k))

let to_line c =
  Printf.sprintf "rs %s|%d|%d|%d|%d|%d|%d|%s|%d %d %s %s" c.policy (if c.replace then 1 else 0) (max 0 c.threshold) (if c.filterlua then 1 else 0)
    (if c.hashtag then 1 else 0) c.maxtype (if c.oldbusy then 1 else 0) (hexd c.version) c.shift c.db
    (match c.pre with None -> "-" | Some p -> Printf.sprintf "%s:%s:%s:%d" (hexd (tkey c (List.hd c.recs).key)) p.pkind (content p.pval) p.pttl)
    (String.concat " " (List.map (fun r -> Printf.sprintf "%s:%d:%s:%s:%d:%d:%d:%d" (hexd r.key) r.typ (hexd r.value) (exp_str r.expire) r.idle r.freq r.real r.need) c.recs))

let show c =
  Printf.sprintf "%s; key %S db %d expiry %s; key_exists=%s replace=%b big_key_threshold=%d filter.lua=%b replace_hash_tag=%b target rejects types > %d target.version=%S shift=%dms; target key before: %s; %d record(s), payload %d bytes"
    c.desc (List.hd c.recs).key c.db (exp_str (List.hd c.recs).expire) c.policy c.replace c.threshold c.filterlua c.hashtag c.maxtype c.version c.shift
    (match c.pre with None -> "absent" | Some p -> Printf.sprintf "%s %s ttl %d" p.pkind (show_l p.pval) p.pttl)
    (List.length c.recs) (String.length (List.hd c.recs).value)

let now0 = 1000000000000
let mentry c (r : rec_) : entry =
  { e_db = n_of_int c.db; e_key = bs r.key; e_type = n_of_int r.typ; e_value = bs r.value;
    e_expire = (if r.expire = 0 then N0 else n_of_int (now0 + r.expire)); e_real_count = n_of_int r.real; e_need_len = n_of_int r.need;
    e_idle = n_of_int r.idle; e_freq = n_of_int r.freq }

let route c =
  let r0 = List.hd c.recs in
  if r0.typ = 14 then "quicklist" else if r0.typ = 250 then "lua" else if is_big (mcfg c) (mentry c r0) then (if List.length c.recs > 1 then "chunks" else "big")
  else if c.maxtype > 0 && r0.typ > c.maxtype then "fallback" else "restore"

let classify c =
  let rt = route c in
  if rt = "restore" && c.pre = None then None else
  Some (Printf.sprintf "%s:%s:%s" rt c.policy (match c.pre with None -> "fresh" | Some p -> if Some p.pkind = Option.map kind_of_logical c.source then "same-type" else "other-type"))

let fail kind sig_ model impl detail = Fail { kind; sig_; model; impl; detail }

let canon_l = function
  | LSet l -> LSet (List.sort compare l) | LHash l -> LHash (List.sort compare l) | LZSet l -> LZSet (List.sort compare l) | v -> v
let canon_t = function TLog v -> TLog (canon_l v) | TRaw p -> TRaw p
let show_t = function TLog v -> show_l v | TRaw p -> "raw:" ^ hex_of_bytes p
let show_slot = function None -> "absent" | Some (v, ttl) -> Printf.sprintf "%s ttl=%d" (show_t v) ttl

let unhexd h = if h = "-" then "" else string_of_hex h
let parse_content kind content : tval option =
  let items () = if content = "_" then [] else String.split_on_char ',' content in
  let pair p = match String.split_on_char '=' p with [ a; b ] -> (bs (unhexd a), unhexd b) | _ -> failwith "pair" in
  match kind with
  | "dump" -> payload_value parse_float (bs (unhexd content))
  | "string" -> Some (TLog (LString (bs (unhexd content))))
  | "list" -> Some (TLog (LList (List.map (fun x -> bs (unhexd x)) (items ()))))
  | "set" -> Some (TLog (LSet (List.map (fun x -> bs (unhexd x)) (items ()))))
  | "hash" -> Some (TLog (LHash (List.map (fun p -> let (a, b) = pair p in (a, bs b)) (items ()))))
  | "zset" -> Some (TLog (LZSet (List.map (fun p -> let (a, b) = pair p in
                      (a, match parse_float (bs b) with Some x -> x | None -> failwith ("score " ^ b))) (items ()))))
  | _ -> None

let judge c obs =
  let impl = let s = String.concat " " obs in if String.length s > 1500 then String.sub s 0 1500 ^ "..." else s in
  let cfg = mcfg c in
  let r0 = List.hd c.recs in
  let tk = tkey c r0.key in
  let rt = route c in
  let existing = c.pre <> None in
  (* observation *)
  let out = match Srcgen.field obs "abort", Srcgen.field obs "panic", Srcgen.field obs "out" with
    | Some a, _, _ -> "abort(exit " ^ a ^ ")" | _, Some p, _ -> "abort(panic: " ^ string_of_hex p ^ ")" | _, _, Some o -> o | _ -> "?" in
  let aborted = String.length out >= 5 && String.sub out 0 5 = "abort" in
  let dt = match Srcgen.field obs "dt" with Some d -> int_of_string d | None -> 0 in
  let state = match Srcgen.field obs "state" with
    | None | Some "-" -> []
    | Some s -> List.map (fun e -> match String.split_on_char ':' e with
        | [ d; k; kind; ct; ttl ] -> ((int_of_string d, unhexd k), (parse_content kind ct, int_of_string ttl))
        | _ -> failwith "state entry") (String.split_on_char ';' s) in
  let scripts = match Srcgen.field obs "scripts" with None | Some "-" -> [] | Some s -> List.map unhexd (String.split_on_char ',' s) in
  let at_key = match List.assoc_opt (c.db, tk) state with Some (Some v, ttl) -> Some (canon_t v, ttl) | Some (None, ttl) -> Some (TRaw [], ttl) | None -> None in
  let others = List.filter (fun (k, _) -> k <> (c.db, tk)) state in
  let pre_slot = Option.map (fun p -> (canon_t (TLog p.pval), p.pttl)) c.pre in
  let ttl_ok exp_ttl got = exp_ttl = got || (exp_ttl > 1 && got > 0 && got <= exp_ttl && exp_ttl - got <= dt + 2) in
  let slot_eq a b = match a, b with
    | None, None -> true | Some (v, t), Some (v', t') -> v = v' && ttl_ok t t' | _ -> false in
  (* what the property demands *)
  let want_ttl = if r0.expire = 0 then 0 else if r0.expire < 0 then 1 else r0.expire in
  let (want_out, want_slot, want_scripts) =
    if rt = "lua" then ("ok", pre_slot, if c.filterlua then [] else [ r0.value ])
    else if existing && c.policy = "none" then ("err", pre_slot, [])
    else if existing && c.policy = "ignore" then ("ok", pre_slot, [])
    else ("ok", (match c.source with
                 | Some v -> Some (canon_t (TLog (norm v)), want_ttl)
                 | None -> Some (TRaw (bs r0.value), want_ttl)), []) in
  let expect = Printf.sprintf "out=%s key %S in db %d: %s; scripts %d" want_out tk c.db (show_slot want_slot) (List.length want_scripts) in
  let got = Printf.sprintf "out=%s key: %s; other keys %d; scripts %d" out (show_slot at_key) (List.length others) (List.length scripts) in
  let sg what =
    if (rt = "big" || rt = "chunks") && existing && c.policy <> "rewrite" then "big-route-policy:" ^ (if aborted then "abort" else what)
    else if aborted then (let has_sub s sub = let n = String.length sub in let rec go i = i + n <= String.length s && (String.sub s i n = sub || go (i + 1)) in go 0 in
                          if has_sub out "index out of range" then "abort:version" else Printf.sprintf "abort:%s:%s" rt c.policy)
    else Printf.sprintf "%s:%s:%s" rt c.policy what in
  let model_verdict () =
    (* model run *)
    let t0 = { t_slot = Option.map (fun p -> { k_val = TLog p.pval; k_ttl = n_of_int p.pttl }) c.pre; t_scripts = [] } in
    let rec run t = function
      | [] -> (t, Done)
      | r :: rest -> (match restore parse_float cfg (n_of_int now0) (mentry c r) t with (t', Done) -> run t' rest | (t', o) -> (t', o)) in
    let (tm, om) = run t0 c.recs in
    let m_out = match om with Done -> "ok" | Failed -> "err" | Aborted -> "abort" in
    let m_slot = Option.map (fun k -> (canon_t k.k_val, int_of_n k.k_ttl)) tm.t_slot in
    let m = Printf.sprintf "out=%s key: %s; scripts %d" m_out (show_slot m_slot) (List.length tm.t_scripts) in
    if aborted && m_out = "abort" then Agree   (* the process died: the target state is not observable *)
    else if m_out <> out || not (slot_eq m_slot at_key) || List.map string_of_bytes tm.t_scripts <> scripts then
      fail "diff" "restore-model" m got "model and implementation disagree on the restore"
    else Agree in
  let known f = match f with Fail { sig_; _ } when String.length sig_ >= 16 && String.sub sig_ 0 16 = "big-route-policy" ->
      (match model_verdict () with Agree -> f | d -> d) | _ -> f in
  known (
  if aborted then fail "oracle" (sg "abort") expect impl ("the restore aborted the process: " ^ out)
  else if out <> want_out then fail "oracle" (sg "outcome") expect got "the restore reported a different outcome than the key_exists policy demands"
  else if others <> [] then fail "oracle" (sg "other-keys") expect got "keys other than the (rewritten) key were written"
  else if not (slot_eq want_slot at_key) then
    fail "oracle" (sg (match want_slot, at_key with Some (v, _), Some (v', _) when v = v' -> "ttl" | _ -> "value")) expect got
      "the target key does not hold the source's value / time-to-live (or was touched although the policy forbids it)"
  else if scripts <> want_scripts then fail "oracle" (sg "scripts") expect got "lua script loading does not follow filter.lua"
  else model_verdict ())
