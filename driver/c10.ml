(* c10.ml — cases, model runs and oracle for C10 (RESP codec). *)
open Glue
open Frame

type tree = S of string | E of string | I of string (* decimal *) | B of string option | A of tree list option

type arg = AS of string | AB of string | AN | AI of string
type item = V of tree | Raw of string | Inline of string (* line without CRLF *) | Keep of int
  | VC of tree                      (* the same tree, built through NewInt / NewBulkBytes / NewArray + Append* *)
  | Cmd of string * arg list        (* redis.NewCommand(name, args...) *)

type case =
  | Stream of int * int * item list * bool   (* bufsize, chunk, items, pure (no corruption) *)
  | Trunc of tree * int                      (* first n bytes of the encoding only *)
  | Itos of string

let id = "C10"
let rule = "streams of random RESP trees (depth<=4; ints at -1025..-1023, 524286..524289, int64 limits; binary bulks with CR/LF; nil vs empty; arrays of 1023 / 1024 / 1025 / 3000 elements; built from struct literals, through the constructors NewInt / NewBulkBytes / NewArray + Append*, and as NewCommand(name, string / []byte / nil / int64 args)), \
inline command lines and keep-alive newlines, read through bufio sizes 16..4096 and readers returning 1..n bytes; for each of a set of values \
ALL truncations and single-byte corruptions (every position x 9 replacement bytes); non-trivial = stream with >=1 value; distinct by wire line"

let rec tree_str = function
  | S s -> "S" ^ hex_of_string s | E s -> "E" ^ hex_of_string s | I d -> "I" ^ d
  | B None -> "Bn" | B (Some s) -> "B" ^ hex_of_string s
  | A None -> "An" | A (Some l) -> String.concat "," (("A" ^ string_of_int (List.length l)) :: List.map tree_str l)

let rec to_model = function
  | S s -> Model.RStr (bytes_of_string s) | E s -> Model.RErr (bytes_of_string s)
  | I d -> Model.RInt (z_of_decimal d)
  | B None -> Model.RBulk None | B (Some s) -> Model.RBulk (Some (bytes_of_string s))
  | A None -> Model.RArr None | A (Some l) -> Model.RArr (Some (List.map to_model l))

let rec of_model = function
  | Model.RStr b -> S (string_of_bytes b) | Model.RErr b -> E (string_of_bytes b)
  | Model.RInt z -> I (decimal_of_z z)
  | Model.RBulk None -> B None | Model.RBulk (Some b) -> B (Some (string_of_bytes b))
  | Model.RArr None -> A None | Model.RArr (Some l) -> A (Some (List.map of_model l))

let ints = [ "0"; "1"; "-1"; "-1023"; "-1024"; "-1025"; "-1026"; "524286"; "524287"; "524288"; "524289"; "9223372036854775807";
             "-9223372036854775808"; "42"; "1000000"; "-77" ]

let no_nl st n = String.init n (fun _ -> let c = rnd_int st 255 in Char.chr (if c >= 10 then c + 1 else c))
let rec gen_tree st depth =
  match rnd_weighted st [ (2, 0); (1, 1); (3, 2); (5, 3); (if depth < 4 then 4 else 0), 4 ] with
  | 0 -> S (no_nl st (rnd_int st 8))
  | 1 -> E (no_nl st (rnd_int st 8))
  | 2 -> I (if rnd_bool st then rnd_pick st ints else string_of_int (rnd_int st 2000000 - 1000000))
  | 3 -> (match rnd_int st 6 with 0 -> B None | 1 -> B (Some "") | 2 -> B (Some (rnd_string_of st "\r\n$*+-:a" (rnd_int st 10)))
          | _ -> B (Some (rnd_string st (rnd_pick st [ 1; 2; 5; 17; 100 ]))))
  | _ -> (match rnd_int st 8 with 0 -> A None | 1 -> A (Some []) | _ -> A (Some (List.init (1 + rnd_int st 4) (fun _ -> gen_tree st (depth + 1)))))

let tree_of_cmd name args = A (Some (B (Some name) :: List.map (function AS x | AB x -> B (Some x) | AN -> B None | AI d -> B (Some d)) args))
(* the value an item stands for *)
let value_of = function V t | VC t -> Some t | Cmd (n, a) -> Some (tree_of_cmd n a) | _ -> None
let inline_lines = [ "PING"; "SET a b"; "  GET   k "; "x"; "ECHO a\rb"; "QUIT  " ]

let enc_model t = string_of_bytes (Model.encode (to_model t))

let gen st tier =
  let thorough = tier = "thorough" in
  let k = if thorough then 20 else 1 in
  let streams = List.init (600 * k) (fun _ ->
    let n = 1 + rnd_int st 6 in
    let items = List.init n (fun _ -> match rnd_int st 10 with
      | 0 -> Keep (1 + rnd_int st 3) | 1 -> Inline (rnd_pick st inline_lines)
      | 2 | 3 -> VC (gen_tree st 0)
      | 4 -> Cmd (rnd_pick st [ "psync"; "replconf"; "SET"; "" ],
                  List.init (rnd_int st 4) (fun _ -> match rnd_int st 6 with
                    | 0 -> AS "" | 1 -> AB "" | 2 -> AN | 3 -> AI (rnd_pick st ints)
                    | 4 -> AS (rnd_string_of st "\r\n$*ab" (rnd_int st 6)) | _ -> AB (no_nl st (rnd_int st 8))))
      | _ -> V (gen_tree st 0)) in
    Stream (rnd_pick st [ 16; 17; 64; 4096 ], rnd_pick st [ 1; 2; 7; 100000 ], items, true)) in
  (* arrays far longer than any pre-allocation bound a decoder might use *)
  let long_arrays = List.map (fun n ->
      Stream (4096, 100000, [ V (A (Some (List.init n (fun i -> if i mod 3 = 0 then I (string_of_int i) else B (Some (string_of_int i)))))); V (S "NEXT") ], true))
      ([ 1023; 1024; 1025 ] @ (if thorough then [ 3000; 8000 ] else [ 3000 ])) in
  let vals = List.init (8 * k) (fun _ -> gen_tree st 2) @ [ B (Some "ab"); A (Some [ B (Some "SET"); B (Some "k"); I "-1025" ]); S "OK"; A None ] in
  let corrupt = List.concat_map (fun t ->
    let e = enc_model t in
    if String.length e > 60 then [] else
    List.init (String.length e) (fun n -> Trunc (t, n)) @
    List.concat_map (fun pos ->
      List.filter_map (fun rep ->
        if e.[pos] = rep then None else
          let e' = Bytes.of_string e in Bytes.set e' pos rep;
          Some (Stream (64, 100000, [ Raw (Bytes.to_string e'); V (I "7") ], false)))
        [ '\000'; '\n'; '\r'; '0'; '9'; '-'; ' '; '\255'; Char.chr (Char.code e.[pos] lxor 1) ])
      (List.init (String.length e) (fun i -> i))) vals in
  let itos = List.map (fun d -> Itos d) ints @ List.init 50 (fun _ -> Itos (string_of_int (rnd_int st 1100000 - 2000))) in
  streams @ long_arrays @ corrupt @ itos

(* F5 witness: an inline command's first byte was counted twice *)
let corpus = [ Stream (4096, 100000, [ Inline "PING"; V (B (Some "x")) ], true);
               Stream (16, 1, [ Keep 2; Inline "SET a b"; Keep 1; V (A (Some [ B (Some "GET"); B (Some "k") ])) ], true) ]

let item_str = function
  | V t -> "V:" ^ tree_str t
  | VC t -> "C:" ^ tree_str t
  | Cmd (n, a) -> "K:" ^ String.concat "," (hex_of_string n :: List.map (function AS x -> "s" ^ hex_of_string x | AB x -> "b" ^ hex_of_string x | AN -> "n" | AI d -> "i" ^ d) a)
  | Raw s -> "R:" ^ hex_of_string s
  | Inline l -> "R:" ^ hex_of_string (l ^ "\r\n")
  | Keep n -> "R:" ^ hex_of_string (String.make n '\n')

let to_line = function
  | Stream (b, c, items, _) -> Printf.sprintf "stream %d %d %s" b c (String.concat " " (List.map item_str items))
  | Trunc (t, n) -> Printf.sprintf "stream 64 100000 R:%s" (hex_of_string (String.sub (enc_model t) 0 n))
  | Itos d -> "itos " ^ d

let show = function
  | Stream (b, c, items, pure) ->
      Printf.sprintf "%s stream [%s] via bufio(%d) over %d-byte reads" (if pure then "well-formed" else "corrupted")
        (String.concat " | " (List.map (function V t -> tree_str t | VC t -> "(via constructors) " ^ tree_str t
                                               | Cmd (n, a) -> Printf.sprintf "NewCommand(%S%s)" n (String.concat "" (List.map (function AS x -> Printf.sprintf ", %S" x | AB x -> Printf.sprintf ", []byte(%S)" x | AN -> ", nil" | AI d -> ", int64(" ^ d ^ ")") a))
                                               | Raw s -> "raw " ^ show_bytes s | Inline l -> "inline " ^ show_bytes l
                                               | Keep n -> Printf.sprintf "%d x \\n" n) items)) b c
  | Trunc (t, n) -> Printf.sprintf "first %d bytes of the encoding of %s" n (tree_str t)
  | Itos d -> "itos(" ^ d ^ ")"

let classify = function
  | Stream (_, _, items, pure) ->
      if not pure then Some "corrupted" else
      if List.exists (fun it -> value_of it <> None) items then
        Some (if List.exists (function Inline _ -> true | _ -> false) items then "stream:inline+values"
              else if List.exists (function Keep _ -> true | _ -> false) items then "stream:keepalive+values" else "stream:values")
      else Some "stream:no-value"
  | Trunc _ -> Some "truncation"
  | Itos _ -> Some "itos"

let split_inline l =
  let toks = List.filter (fun x -> x <> "") (String.split_on_char ' ' l) in
  if toks = [] then A None else A (Some (List.map (fun t -> B (Some t)) toks))

let fail kind sig_ model impl detail = Fail { kind; sig_; model; impl; detail }

let model_stream (stream : string) =
  let inp = bytes_of_string stream in
  let n = String.length stream + 1 in
  let l = Model.dec_stream (nat_of_int n) (nat_of_int n) inp Model.Z0 in
  String.concat " " (List.map (fun (v, o) -> tree_str (of_model v) ^ "@" ^ decimal_of_z o) l @ [ "end=err" ])

let judge c obs =
  let impl = String.concat " " obs in
  match c with
  | Itos d ->
      let m = hex_of_bytes (Model.itos (z_of_decimal d)) in
      if impl <> hex_of_string d then fail "oracle" "itos" m impl "itos differs from the decimal rendering"
      else if impl <> m then fail "diff" "itos-model" m impl "" else Agree
  | Trunc (t, n) ->
      let stream = String.sub (enc_model t) 0 n in
      let m = "none " ^ model_stream stream in
      if impl <> "none end=err" then fail "oracle" "truncation-yields-value" m impl "a truncated encoding decoded to a value"
      else if impl <> m then fail "diff" "trunc-model" m impl "" else Agree
  | Stream (_, _, items, pure) ->
      let encs = List.filter_map (fun it -> Option.map enc_model (value_of it)) items in
      let stream = String.concat "" (List.map (function Raw s -> s | Inline l -> l ^ "\r\n" | Keep n -> String.make n '\n'
                                                   | it -> (match value_of it with Some t -> enc_model t | None -> "")) items) in
      let encs_s = if encs = [] then "none" else String.concat ";" (List.map hex_of_string encs) in
      let m = encs_s ^ " " ^ model_stream stream in
      if pure then begin
        (* oracle, independent of the decoder model: every value comes back, offsets = bytes so far *)
        let off = ref 0 in
        let pending = ref 0 in
        let exp = List.filter_map (function
          | (V _ | VC _ | Cmd _) as it -> let t = Option.get (value_of it) in
              off := !off + !pending + String.length (enc_model t); pending := 0; Some (tree_str t ^ "@" ^ string_of_int !off)
          | Inline l -> off := !off + !pending + String.length l + 2; pending := 0; Some (tree_str (split_inline l) ^ "@" ^ string_of_int !off)
          | Keep n -> pending := !pending + n; None
          | Raw _ -> None) items in
        let expected = encs_s ^ " " ^ String.concat " " (exp @ [ "end=err" ]) in
        if impl <> expected then
          fail "oracle" (if List.exists (function Inline _ -> true | _ -> false) items then "inline-offset-or-value" else "roundtrip-or-offset")
            expected impl "decoded values / offsets differ from the encoded values and the number of bytes consumed"
        else if impl <> m then fail "diff" "stream-model" m impl "" else Agree
      end else if impl <> m then fail "diff" "corrupted-stream-model" m impl "decoder and model disagree on a corrupted stream" else Agree
