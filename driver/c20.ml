(* c20.ml — cases, model runs and oracle for C20 (slot supervisor: master re-discovery). *)
open Glue
open Frame

type outcome = C | E | R of string

type case = { maxr : int; hosts : string list; rounds : outcome list list }

let id = "C20"
let rule = "topologies of 1..5 nodes (1 master + k replicas, promoted replica, none, several masters) x per-node per-round outcomes \
(connect error, command error, INFO text with LF/CRLF endings, preceding section lines, malformed or missing role line) x node orderings x \
retry budgets 0..2 (quick; the real back-off sleeps 2+1 s) / up to 6 (thorough); non-trivial = at least one failing or non-master probe \
before a master, or no master at all; distinct by wire line"

let infos_master = [ "role:master"; "# Replication\r\nrole:master\r\nconnected_slaves:1\r\n"; "role:master\n"; "x\nrole:master_extra" ]
let infos_slave = [ "role:slave"; "# Replication\r\nrole:slave\r\nmaster_host:1.2.3.4\r\n"; "role:slave\nrole:master" ]
let infos_bad = [ ""; "role:sentinel"; "xrole:master"; " role:master"; "# Replication\r\nrole :master"; "ROLE:MASTER"; "norole\r\nmaster" ]

let gen_outcome st kind =
  match kind with
  | `M -> R (rnd_pick st infos_master)
  | `S -> R (rnd_pick st infos_slave)
  | `B -> (match rnd_int st 3 with 0 -> C | 1 -> E | _ -> R (rnd_pick st infos_bad))

let gen st tier =
  let thorough = tier = "thorough" in
  List.init (if thorough then 300 else 400) (fun _ ->
    let n = 1 + rnd_int st 5 in
    let hosts = List.init n (fun i -> Printf.sprintf "10.0.0.%d:%d" (i + 1) (6379 + rnd_int st 3)) in
    let hosts = if rnd_bool st then List.rev hosts else hosts in
    let maxr = if thorough then rnd_pick st [ 0; 1; 2; 3; 6 ] else rnd_pick st [ 0; 1; 2; 2 ] in
    let nr = 1 + rnd_int st (maxr + 1) in
    let master_round = if rnd_int st 5 = 0 then 99 else rnd_int st (maxr + 2) in
    let rounds = List.init nr (fun r ->
      List.mapi (fun i _ ->
        if r >= master_round then begin
          (* one or several masters from this round on *)
          if i = (master_round + n - 1) mod n then gen_outcome st `M
          else if rnd_int st 6 = 0 then gen_outcome st `M else gen_outcome st (if rnd_bool st then `S else `B)
        end else gen_outcome st (if rnd_bool st then `S else `B)) hosts) in
    { maxr; hosts; rounds })

(* F16 witness: two nodes report master; the first must stay in the node list *)
let corpus = [ { maxr = 0; hosts = [ "a:1"; "b:1"; "c:1" ]; rounds = [ [ R "role:master"; R "role:master"; R "role:slave" ] ] };
               { maxr = 1; hosts = [ "a:1"; "b:1" ]; rounds = [ [ C; E ]; [ R "role:slave\r\n"; R "# Replication\r\nrole:master\r\n" ] ] } ]

let out_str = function C -> "C" | E -> "E" | R s -> "R" ^ hex_of_string s
let to_line c =
  Printf.sprintf "sup %d %s %s" c.maxr (String.concat "," (List.map hex_of_string c.hosts))
    (String.concat "|" (List.map (fun r -> String.concat "," (List.map out_str r)) c.rounds))
let show c =
  Printf.sprintf "maxRetries=%d nodes=[%s] rounds: %s" c.maxr (String.concat " " c.hosts)
    (String.concat " | " (List.map (fun r -> String.concat "," (List.map (function C -> "connect-error" | E -> "command-error" | R s -> show_bytes s) r)) c.rounds))

let outcome_at c r h =
  let nr = List.length c.rounds in
  let round = List.nth c.rounds (min r (nr - 1)) in
  let rec idx i = function [] -> -1 | x :: t -> if x = h then i else idx (i + 1) t in
  List.nth round (idx 0 c.hosts)

(* independent reading of the role: first line starting with role:master / role:slave *)
let is_master_text s =
  let lines = String.split_on_char '\n' s in
  let starts p l = String.length l >= String.length p && String.sub l 0 (String.length p) = p in
  let rec go = function [] -> false | l :: r -> if starts "role:master" l then true else if starts "role:slave" l then false else go r in
  go lines
let is_master c r h = match outcome_at c r h with R s -> is_master_text s | _ -> false

let classify c =
  let any_m r = List.exists (fun h -> is_master c r h) c.hosts in
  let first = let rec f r = if r > c.maxr then None else if any_m r then Some r else f (r + 1) in f 0 in
  match first with
  | None -> Some "no-master"
  | Some 0 -> if is_master c 0 (List.hd c.hosts) && List.length (List.filter (is_master c 0) c.hosts) = 1 then None else Some "master-not-first"
  | Some _ -> Some "master-after-retries"

let fail kind sig_ model impl detail = Fail { kind; sig_; model; impl; detail }

let judge c obs =
  let impl = String.concat " " obs in
  let probe (r : Model.nat) (h : Model.byte list) =
    match outcome_at c (int_of_nat r) (string_of_bytes h) with
    | C -> Model.ConnErr | E -> Model.CmdErr | R s -> Model.Reply (bytes_of_string s) in
  let m = Model.get_slot_state probe (nat_of_int c.maxr) (bytes_of_string (List.hd c.hosts)) (List.map bytes_of_string (List.tl c.hosts)) in
  let n = List.length c.hosts in
  let any_m r = List.exists (fun h -> is_master c r h) c.hosts in
  let first = let rec f r = if r > c.maxr then None else if any_m r then Some r else f (r + 1) in f 0 in
  let model = match m, first with
    | Some (s, sl), Some r ->
        Printf.sprintf "ok %d %s %s" ((r + 1) * n) (hex_of_bytes s) (if sl = [] then "none" else String.concat "," (List.map hex_of_bytes sl))
    | None, _ -> Printf.sprintf "err %d" ((c.maxr + 1) * n)
    | Some _, None -> "model-inconsistent" in
  (* oracle from the property *)
  let verdict =
    match obs with
    | "ok" :: calls :: src :: [ sl ] ->
        let src = string_of_hex src in
        let slaves = if sl = "none" then [] else List.map string_of_hex (String.split_on_char ',' sl) in
        let round = int_of_string calls / n - 1 in
        if not (is_master c round src) then Some ("chosen-not-master", Printf.sprintf "the chosen source %s did not report the master role in round %d" src round)
        else if List.sort compare (src :: slaves) <> List.sort compare c.hosts then
          Some ("node-set-not-preserved", "source + slaves are not exactly the known nodes: " ^ String.concat " " (src :: slaves))
        else None
    | "err" :: [ calls ] ->
        if first <> None then Some ("failed-although-master-present", "reported failure although a node reported master within the retry budget")
        else if int_of_string calls <> (c.maxr + 1) * n then Some ("retry-budget", "number of probes differs from (maxRetries+1) rounds: " ^ calls)
        else None
    | "nilres" :: _ -> Some ("no-node-and-no-error", "discovery returned neither a node nor an error (the caller would go on with a nil topology)")
    | _ -> Some ("malformed-observation", impl) in
  match verdict with
  | Some (sg, msg) -> fail "oracle" sg model impl msg
  | None -> if impl = model then Agree else fail "diff" "supervisor-model" model impl ""
