(* rdbgen.ml — random abstract RDB syntax trees (Spec.RdbFormat) shared by C01, C07, C12, C17. *)
open Glue
open Model

let nn = n_of_int
let bs = bytes_of_string

(* a length form that fits n: canonical or wider than necessary (never L64 for counts) *)
let form st ?(allow64 = false) n =
  let ok = List.filter (fun (_, lim) -> n < lim) [ (L6, 64); (L14, 16384); (L32, 1 lsl 32) ] in
  let cands = List.map fst ok @ (if allow64 then [ L64 ] else []) in
  (* favour the canonical form *)
  if rnd_int st 4 <> 0 then List.hd cands else rnd_pick st cands

(* a small LZF compressor: literal runs, and back-references (distance 1, 2, 3 or 8) wherever the next >= 3 bytes repeat what was
   written that far back - for runs ("aaaa", blanks) and short periodic patterns ("abab") the reference overlaps its own output
   (distance < length), the case a memmove-style copy gets wrong *)
let lzf_compress (s : string) : string =
  let b = Buffer.create (String.length s + 8) in
  let n = String.length s in
  let lit = Buffer.create 32 in
  let flush () =
    let l = Buffer.contents lit in
    let k = String.length l in
    let i = ref 0 in
    while !i < k do
      let m = min 32 (k - !i) in
      Buffer.add_char b (Char.chr (m - 1)); Buffer.add_string b (String.sub l !i m); i := !i + m
    done;
    Buffer.clear lit in
  let i = ref 0 in
  while !i < n do
    let best = ref (0, 0) in
    List.iter (fun d ->
      if !i >= d then begin
        let l = ref 0 in
        while !i + !l < n && !l < 264 && s.[!i + !l] = s.[!i + !l - d] do incr l done;
        if !l > fst !best then best := (!l, d)
      end) [ 1; 2; 3; 8 ];
    let (l, d) = !best in
    if l >= 3 then begin
      flush ();
      let off = d - 1 and lf = l - 2 in
      if lf < 7 then begin Buffer.add_char b (Char.chr ((lf lsl 5) lor (off lsr 8))); Buffer.add_char b (Char.chr (off land 255)) end
      else begin Buffer.add_char b (Char.chr ((7 lsl 5) lor (off lsr 8))); Buffer.add_char b (Char.chr (lf - 7)); Buffer.add_char b (Char.chr (off land 255)) end;
      i := !i + l
    end else begin Buffer.add_char lit s.[!i]; incr i end
  done;
  flush ();
  Buffer.contents b

(* strings Redis would store compressed: longer than 20 bytes with runs and repetitions *)
let gen_compressible st =
  match rnd_int st 5 with
  | 0 -> "key:" ^ String.make (20 + rnd_int st 40) (Char.chr (97 + rnd_int st 3)) ^ ":" ^ string_of_int (rnd_int st 100)
  | 1 -> String.concat "" (List.init (8 + rnd_int st 10) (fun _ -> "ab")) ^ rnd_string st (rnd_int st 5)
  | 2 -> "if x then\n" ^ String.make (8 + rnd_int st 8) ' ' ^ "return 1 end -- " ^ String.make (10 + rnd_int st 300) '-'
  | 3 -> rnd_string st (1 + rnd_int st 6) ^ String.concat "" (List.init (6 + rnd_int st 6) (fun _ -> "xyz")) ^ String.make (5 + rnd_int st 20) '0'
  | _ -> String.make (24 + rnd_int st 300) (Char.chr (rnd_int st 256))

let lzf_rstring st (s : string) : rstring =
  let blob = lzf_compress s in
  match lzf_decompress (bs blob) (nn (String.length s)) with
  | Some o when string_of_bytes o = s && String.length blob < String.length s -> SLzf (form st (String.length blob), form st (String.length s), bs blob, nn (String.length s))
  | _ -> SRaw (form st (String.length s), bs s)

let gen_bytes st =
  match rnd_int st 10 with
  | 0 -> "" | 1 -> String.make (4 + rnd_int st 300) (Char.chr (97 + rnd_int st 3))
  | 2 -> rnd_string st (rnd_pick st [ 63; 64; 65; 255; 256; 1000 ])
  | 3 -> string_of_int (rnd_int st 100000 - 50000)
  | _ -> rnd_string st (rnd_int st 24)

let gen_rstring st : rstring =
  match rnd_int st 10 with
  | 0 -> SInt8 (z_of_int (rnd_pick st [ -128; -1; 0; 1; 127; rnd_int st 256 - 128 ]))
  | 1 -> SInt16 (z_of_int (rnd_pick st [ -32768; 32767; 128; -129; rnd_int st 65536 - 32768 ]))
  | 2 -> SInt32 (z_of_int (rnd_pick st [ -2147483648; 2147483647; 32768; -32769; rnd_int st 1000000 ]))
  | 3 ->
      let s = if rnd_bool st then gen_compressible st else gen_bytes st in
      let s = if s = "" then "x" else s in
      let blob = lzf_compress s in
      (match lzf_decompress (bs blob) (nn (String.length s)) with
       | Some o when string_of_bytes o = s -> SLzf (form st (String.length blob), form st (String.length s), bs blob, nn (String.length s))
       | _ -> SRaw (form st (String.length s), bs s))
  | _ -> let s = gen_bytes st in SRaw (form st (String.length s), bs s)

let gen_key st : rstring =
  if rnd_int st 8 = 0 then lzf_rstring st (gen_compressible st) else
  let s = rnd_pick st [ "k"; "key:" ^ string_of_int (rnd_int st 1000); "{tag}" ^ rnd_string_of st "abc" 3; rnd_string st (1 + rnd_int st 12); string_of_int (rnd_int st 300);
                        string_of_int (rnd_pick st [ -1; -128; -129; -1000; -32768; 32767; 128; -5 - rnd_int st 30000 ]) ] in
  if rnd_int st 3 = 0 then (match int_of_string_opt s with
    | Some i when i >= -128 && i < 128 -> SInt8 (z_of_int i)
    | Some i when i >= -32768 && i < 32768 -> SInt16 (z_of_int i) | _ -> SRaw (form st (String.length s), bs s))
  else SRaw (form st (String.length s), bs s)

let score_text st =
  let f = rnd_pick st [ 0.0; 1.0; -1.5; 3.141592653589793; 1e100; -2.5e-300; 17.0; float_of_int (rnd_int st 1000000) /. 7.0; 4.9e-324; 1.7976931348623157e308 ] in
  Printf.sprintf "%.17g" f

let gen_value st ~(max_elems : int) : rvalue =
  let k = rnd_pick st [ 0; 1; 2; rnd_int st (max_elems + 1); max_elems ] in
  match rnd_int st 9 with
  | 0 | 1 -> VStr (nn (rnd_pick st [ 0; 0; 0; 9; 10; 11; 12; 13 ]), gen_rstring st)
  | 2 -> VSeq (nn (rnd_pick st [ 1; 2; 14 ]), form st k, List.init k (fun _ -> gen_rstring st))
  | 3 -> VZSet (form st k, List.init k (fun _ -> (gen_rstring st, (match rnd_int st 8 with 0 -> ScNaN | 1 -> ScPInf | 2 -> ScNInf | _ -> ScText (bs (score_text st))))))
  | 4 -> VZSet2 (form st k, List.init k (fun _ -> (gen_rstring st, bs (rnd_string st 8))))
  | 5 | 6 -> VHash (form st k, List.init k (fun _ -> (gen_rstring st, gen_rstring st)))
  | 7 ->
      let big st = nn (rnd_pick st [ 0; 5; 1 lsl 20; 1526919030474; (1 lsl 50) + 3 ]) in
      let lf st v = form st ~allow64:true (min (int_of_n v) ((1 lsl 32) - 1)) in
      let lf64 st v = if int_of_n v >= 1 lsl 32 then L64 else lf st v in
      let pel st = { pe_id = bs (rnd_string st 16); pe_seen = bs (rnd_string st 8); pe_count_f = form st 3; pe_count = nn (rnd_int st 60) } in
      let cons st = let np = rnd_int st 3 in { co_name = gen_rstring st; co_seen = bs (rnd_string st 8); co_f = form st np; co_pel = List.init np (fun _ -> bs (rnd_string st 16)) } in
      let grp st =
        let np = rnd_int st 3 and nc = rnd_int st 3 in
        let ms = big st and seq = big st in
        { cg_name = gen_rstring st; cg_f1 = lf64 st ms; cg_ms = ms; cg_f2 = lf64 st seq; cg_seq = seq;
          cg_fp = form st np; cg_pel = List.init np (fun _ -> pel st); cg_fc = form st nc; cg_consumers = List.init nc (fun _ -> cons st) } in
      let npk = rnd_int st 3 and ng = rnd_int st 3 in
      let len = big st and ms = big st and seq = big st in
      VStream { st_f = form st npk; st_packs = List.init npk (fun _ -> (gen_rstring st, gen_rstring st));
                st_fl = lf64 st len; st_len = len; st_fm = lf64 st ms; st_ms = ms; st_fs = lf64 st seq; st_seq = seq;
                st_fg = form st ng; st_groups = List.init ng (fun _ -> grp st) }
  | _ -> VStr (nn 0, gen_rstring st)

let gen_mod_item st : mod_item =
  let fo v = form st v in
  let big = nn (rnd_pick st [ 0; 7; 1 lsl 33; 123456789012 ]) in
  let fv = if int_of_n big >= 1 lsl 32 then L64 else form st ~allow64:true (int_of_n big) in
  match rnd_int st 5 with
  | 0 -> MSint (fo 1, fv, big) | 1 -> MUint (fo 2, fv, big)
  | 2 -> MFloat (fo 3, bs (rnd_string st 4)) | 3 -> MDouble (fo 4, bs (rnd_string st 8))
  | _ -> MString (fo 5, gen_rstring st)

(* a file body: databases in any order, keys with optional expiry/idle/freq, metadata in between *)
let gen_units st ~(nkeys : int) ~(max_elems : int) ~(meta : bool) : unit_ list =
  let us = ref [] in
  let add u = us := u :: !us in
  if meta && rnd_bool st then begin
    add (UAux (SRaw (L6, bs "redis-ver"), SRaw (L6, bs "5.0.5")));
    add (UAux (SRaw (L6, bs "redis-bits"), SInt8 (z_of_int 64)))
  end;
  let ndb = 1 + rnd_int st 3 in
  for _ = 1 to ndb do
    let db = rnd_pick st [ 0; 1; 2; 5; 15; 100; 300 ] in
    if rnd_int st 5 <> 0 then add (USelect (form st db, nn db));
    if meta && rnd_bool st then add (UResize (form st 5, form st 1, nn 5, nn 1));
    for _ = 1 to rnd_int st (nkeys + 1) do
      if meta && rnd_int st 8 = 0 then add (ULua (form st 3, (if rnd_int st 3 = 0 then lzf_rstring st ("return 1 -- " ^ gen_compressible st)
                                                               else SRaw (L6, bs ("return " ^ string_of_int (rnd_int st 100))))));
      if meta && rnd_int st 8 = 0 then begin
        let id = nn (rnd_pick st [ 0; 99; (1 lsl 40) + 7 ]) in
        let items = List.init (rnd_int st 4) (fun _ -> gen_mod_item st) in
        add (UModuleAux ((if int_of_n id >= 1 lsl 32 then L64 else form st ~allow64:true (int_of_n id)), id, items, form st 0))
      end;
      (match rnd_int st 4 with
       | 0 -> add (UExpMs (nn (rnd_pick st [ 1; 1600000000000 + rnd_int st 1000000; (1 lsl 45) + 1 ])))
       | 1 -> add (UExpS (nn (rnd_pick st [ 1; 1600000000 + rnd_int st 100000; (1 lsl 32) - 1 ])))
       | _ -> ());
      if rnd_int st 5 = 0 then (let v = rnd_int st 100000 in add (UIdle (form st v, nn v)));
      if rnd_int st 5 = 0 then add (UFreq (nn (rnd_int st 256)));
      add (UKey (gen_key st, gen_value st ~max_elems))
    done
  done;
  List.rev !us

let le64 (x : n) = string_of_bytes (le_enc (nat_of_int 8) x)
let image (version : int) (us : unit_ list) : string =
  let body = string_of_bytes (enc_body (nn version) us) in
  body ^ le64 (ext_digest (bs body))

let entry_str (e : entry) =
  Printf.sprintf "%d:%s:%d:%s:%d:%d:%d:%d:%s" (int_of_n e.e_db) (hex_of_bytes e.e_key) (int_of_n e.e_type) (decimal_of_n e.e_expire)
    (int_of_n e.e_idle) (int_of_n e.e_freq) (int_of_n e.e_need_len) (int_of_n e.e_real_count) (hex_of_bytes e.e_value)

let rec show_rstring = function
  | SRaw (_, s) -> show_bytes (string_of_bytes s) | SInt8 z -> "int8:" ^ decimal_of_z z | SInt16 z -> "int16:" ^ decimal_of_z z
  | SInt32 z -> "int32:" ^ decimal_of_z z | SLzf (_, _, b, u) -> Printf.sprintf "lzf(%d->%d)" (List.length b) (int_of_n u)
let show_value = function
  | VStr (t, x) -> Printf.sprintf "type%d %s" (int_of_n t) (show_rstring x)
  | VSeq (t, _, xs) -> Printf.sprintf "type%d[%d]" (int_of_n t) (List.length xs)
  | VZSet (_, ms) -> Printf.sprintf "zset[%d]" (List.length ms) | VZSet2 (_, ms) -> Printf.sprintf "zset2[%d]" (List.length ms)
  | VHash (_, ps) -> Printf.sprintf "hash[%d]" (List.length ps) | VStream s -> Printf.sprintf "stream[%d groups]" (List.length s.st_groups)
let show_unit = function
  | UExpMs n -> "expire-ms " ^ decimal_of_n n | UExpS n -> "expire-s " ^ decimal_of_n n | UIdle (_, n) -> "idle " ^ decimal_of_n n
  | UFreq n -> "freq " ^ decimal_of_n n | USelect (_, n) -> "select " ^ decimal_of_n n | UResize _ -> "resizedb"
  | UAux (k, _) -> "aux " ^ show_rstring k | ULua _ -> "lua-script" | UModuleAux (_, _, items, _) -> Printf.sprintf "module-aux[%d]" (List.length items)
  | UKey (k, v) -> "key " ^ show_rstring k ^ " = " ^ show_value v
