(* c15.ml — cases, model runs and oracle for C15 (key -> slot, checkpoint/latency key choice). *)
open Glue
open Frame

type case =
  | Slot of string
  | Chose of int * int * bool   (* bool: also run the (slow) model search and compare the chosen key *)
  | FindKey of int * int * bool

let id = "C15"
let rule = "keys: exhaustive brace layouts over {'{','}','a','b'} up to length 6 (quick) / 8 (thorough) + random binary keys with braces; \
ranges: single-slot ranges and random [l,r]; a case is non-trivial if the key contains a brace (slot) or always (ranges); distinct by wire line"

let rec layouts alphabet n =
  if n = 0 then [ "" ] else
    let shorter = layouts alphabet (n - 1) in
    List.concat_map (fun s -> List.map (fun c -> s ^ String.make 1 c) alphabet) (List.filter (fun s -> String.length s = n - 1) shorter) @ shorter

let gen st tier =
  let thorough = tier = "thorough" in
  let lay = layouts [ '{'; '}'; 'a'; 'b' ] (if thorough then 8 else 6) in
  let exh = List.map (fun s -> Slot s) lay in
  let nrand = if thorough then 20000 else 1500 in
  let rand = List.init nrand (fun _ ->
    let len = rnd_pick st [ 0; 1; 2; 3; 5; 8; 13; 40; 200 ] in
    let s = if rnd_bool st then rnd_string st len else rnd_string_of st "{}{}ab\x00\xff\xc3{" len in
    Slot s) in
  let nm = if thorough then 200 else 8 in
  let nsingle = if thorough then 16384 else 300 in
  let single = List.init nsingle (fun i -> let s = if thorough then i else rnd_int st 16384 in Chose (s, s, i < nm)) in
  let ranges = List.init (if thorough then 2000 else 100) (fun i ->
    let l = rnd_int st 16384 in let r = min 16383 (l + rnd_int st (rnd_pick st [ 2; 10; 100; 16384 ])) in Chose (l, r, i < 5 * nm)) in
  let fsingle = List.init nsingle (fun i -> let s = if thorough then i else rnd_int st 16384 in FindKey (s, s, i < nm)) in
  let franges = List.init (if thorough then 2000 else 100) (fun i ->
    let l = rnd_int st 16384 in let r = min 16383 (l + rnd_int st (rnd_pick st [ 2; 10; 100; 16384 ])) in FindKey (l, r, i < 5 * nm)) in
  exh @ rand @ single @ ranges @ fsingle @ franges

(* witnesses of the repaired defect F2 stay in the corpus: they run first on every run *)
let corpus = [ Slot "{a}{b}"; Slot "{}{b}"; Slot "{a{b}"; Slot "a{b}c{d}"; Chose (0, 0, true); Chose (16383, 16383, false); FindKey (0, 16383, true) ]

let to_line = function
  | Slot k -> "slot " ^ hex_of_string k
  | Chose (l, r, _) -> Printf.sprintf "chose %d %d" l r
  | FindKey (l, r, _) -> Printf.sprintf "findkey %d %d" l r

let show = function
  | Slot k -> "KeyToSlot(" ^ show_bytes k ^ ")"
  | Chose (l, r, _) -> Printf.sprintf "ChoseSlotInRange(checkpoint,%d,%d)" l r
  | FindKey (l, r, _) -> Printf.sprintf "findKeyInRange(%d,%d)" l r

let classify = function
  | Slot k -> if String.contains k '{' || String.contains k '}' then Some "slot:braces" else if k = "" then None else Some "slot:plain"
  | Chose (l, r, _) -> Some (if l = r then "chose:single" else "chose:range")
  | FindKey (l, r, _) -> Some (if l = r then "findkey:single" else "findkey:range")

let brace_shape k =
  (* canonical signature: the brace skeleton of the key *)
  let b = Buffer.create 8 in
  String.iter (fun c -> if c = '{' || c = '}' then Buffer.add_char b c else if Buffer.length b = 0 || Buffer.nth b (Buffer.length b - 1) <> '.' then Buffer.add_char b '.') k;
  Buffer.contents b

let judge c obs =
  match c, obs with
  | Slot k, [ s; c1; c2 ] ->
      let kb = bytes_of_string k in
      let spec = int_of_n (Model.slot_spec_fast kb) in
      let m = int_of_n (Model.key_to_slot kb) in
      let crc = int_of_n (Model.crc16 kb) in
      let mc1 = int_of_n (Model.crc16_common kb) and mc2 = int_of_n (Model.crc16_latency kb) in
      let impl = String.concat " " obs in
      let model = Printf.sprintf "%d %d %d" m mc1 mc2 in
      if int_of_string s <> spec then
        Fail { kind = "oracle"; sig_ = "slot-hashtag"; model; impl;
               detail = Printf.sprintf "KeyToSlot = %s but the cluster specification gives %d" s spec }
      else if int_of_string c1 <> crc || int_of_string c2 <> crc then
        Fail { kind = "oracle"; sig_ = "crc16-copy"; model; impl;
               detail = Printf.sprintf "crc16 copies give %s/%s, CRC-16/XMODEM is %d" c1 c2 crc }
      else if impl <> model then Fail { kind = "diff"; sig_ = "slot-model"; model; impl; detail = "model differs" }
      else Agree
  | Chose (l, r, cmp), [ k ] ->
      let ks = string_of_hex k in
      let m = if not cmp then ks else (match Model.chose_slot_in_range (bytes_of_string "redis-shake-checkpoint") (n_of_int l) (n_of_int r) with
               | Some x -> string_of_bytes x | None -> "") in
      let slot = int_of_n (Model.slot_spec_fast (bytes_of_string ks)) in
      let pre = "redis-shake-checkpoint" in
      let has_pre = String.length ks >= String.length pre && String.sub ks 0 (String.length pre) = pre in
      if not (l <= slot && slot <= r) || not has_pre then
        Fail { kind = "oracle"; sig_ = "chose-outside-range"; model = m; impl = ks;
               detail = Printf.sprintf "chosen checkpoint key %S hashes to slot %d, outside [%d,%d] or lacks the checkpoint prefix" ks slot l r }
      else if m <> ks then Fail { kind = "diff"; sig_ = "chose-model"; model = m; impl = ks; detail = "model picks another key" }
      else Agree
  | FindKey (l, r, cmp), [ k ] ->
      let ks = string_of_hex k in
      let m = if not cmp then ks else (match Model.find_key_in_range (n_of_int l) (n_of_int r) with Some x -> string_of_bytes x | None -> "") in
      let slot = int_of_n (Model.crc16 (bytes_of_string ks)) mod 16384 in
      if not (l <= slot && slot <= r) then
        Fail { kind = "oracle"; sig_ = "findkey-outside-range"; model = m; impl = ks;
               detail = Printf.sprintf "latency key %S hashes to slot %d, outside [%d,%d]" ks slot l r }
      else if m <> ks then Fail { kind = "diff"; sig_ = "findkey-model"; model = m; impl = ks; detail = "model picks another key" }
      else Agree
  | _ -> Fail { kind = "diff"; sig_ = "malformed-observation"; model = ""; impl = String.concat " " obs; detail = "unexpected observation shape" }
