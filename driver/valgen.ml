(* valgen.ml — generators of logical values and of compact encodings with a known logical value (shared by C02, C12, C16, C17). *)
open Glue
open Model

let bs = bytes_of_string
let fmt_g17 (b : n) : byte list = bs (Printf.sprintf "%.17g" (Int64.float_of_bits (Int64.of_string ("0u" ^ decimal_of_n b))))
let bits_of_float f = n_of_decimal (Printf.sprintf "%Lu" (Int64.bits_of_float f))
let parse_float (t : byte list) : n option =
  match float_of_string_opt (string_of_bytes t) with
  | Some f -> if Float.is_nan f then Some nan_bits else Some (bits_of_float f)
  | None -> None

let hexs s = hex_of_string s
let show_l = function
  | LString s -> "S:" ^ hex_of_bytes s
  | LList l -> "L:" ^ (if l = [] then "_" else String.concat "," (List.map hex_of_bytes l))
  | LSet l -> "T:" ^ (if l = [] then "_" else String.concat "," (List.map hex_of_bytes l))
  | LHash l -> "H:" ^ (if l = [] then "_" else String.concat "," (List.map (fun (f, v) -> hex_of_bytes f ^ "=" ^ hex_of_bytes v) l))
  | LZSet l -> "Z:" ^ (if l = [] then "_" else String.concat "," (List.map (fun (m, b) ->
        hex_of_bytes m ^ "=" ^ Printf.sprintf "%Lx" (Int64.of_string ("0u" ^ decimal_of_n b))) l))

let int_strings = [ "0"; "-1"; "127"; "128"; "-128"; "-129"; "32767"; "32768"; "-32768"; "-32769"; "2147483647"; "2147483648";
                    "-2147483648"; "-2147483649"; "007"; "+5"; "-0"; " 1"; "1 "; "12a"; ""; "9223372036854775807"; "99999999999999999999" ]
let gen_str st =
  match rnd_int st 6 with
  | 0 -> rnd_pick st int_strings
  | 1 -> string_of_int (rnd_int st 100000 - 50000)
  | 2 -> rnd_string st (rnd_pick st [ 63; 64; 65 ])
  | 3 -> if rnd_int st 20 = 0 then rnd_string st (rnd_pick st [ 16383; 16384 ]) else rnd_string st (rnd_int st 8)
  | _ -> rnd_string st (rnd_int st 20)

let score_bits st : n =
  match rnd_int st 12 with
  | 0 -> nan_bits | 1 -> pinf_bits | 2 -> ninf_bits
  | 3 -> bits_of_float 0.0 | 4 -> bits_of_float (-0.0) | 5 -> n_of_int 1 (* smallest subnormal *)
  | 6 -> bits_of_float max_float | 7 -> bits_of_float min_float | 8 -> bits_of_float (-1.5e300)
  | 9 -> n_of_decimal "9221120237041090561" (* another NaN pattern *)
  | _ -> bits_of_float (float_of_int (rnd_int st 2000000 - 1000000) /. (float_of_int (1 + rnd_int st 1000)))

let gen_logical st =
  let k = rnd_pick st [ 0; 1; 2; 3; rnd_int st 10 ] in
  match rnd_int st 5 with
  | 0 -> LString (bs (gen_str st))
  | 1 -> LList (List.init k (fun _ -> bs (gen_str st)))
  | 2 -> LSet (List.init k (fun _ -> bs (gen_str st)))
  | 3 -> LHash (List.init k (fun _ -> (bs (gen_str st), bs (gen_str st))))
  | _ -> LZSet (List.init k (fun _ -> (bs (gen_str st), score_bits st)))

(* compact encodings from the spec encoders *)
let gen_zval st : zval =
  match rnd_int st 9 with
  | 0 -> ZStr6 (bs (rnd_string st (rnd_pick st [ 0; 1; 5; 63 ])))
  | 1 -> ZStr14 (bs (rnd_string st (rnd_pick st [ 0; 64; 300 ])))
  | 2 -> ZStr32 (bs (rnd_string st (rnd_pick st [ 0; 3; 70 ])))
  | 3 -> ZI16 (z_of_int (rnd_pick st [ -32768; 32767; 300; -300 ]))
  | 4 -> ZI32 (z_of_int (rnd_pick st [ -2147483648; 2147483647; 70000 ]))
  | 5 -> ZI64 (z_of_decimal (rnd_pick st [ "-9223372036854775808"; "9223372036854775807"; "5000000000" ]))
  | 6 -> ZI24 (z_of_int (rnd_pick st [ -8388608; 8388607; 40000; -40000 ]))
  | 7 -> ZI8 (z_of_int (rnd_pick st [ -128; 127; 13; -1 ]))
  | _ -> ZImm (n_of_int (rnd_int st 13))
let gen_prev st = if rnd_int st 4 = 0 then P5 (n_of_int (rnd_pick st [ 254; 300; 70000 ])) else P1 (n_of_int (rnd_int st 254))

let ziplist st (vals : zval list) = string_of_bytes (enc_ziplist (n_of_int (rnd_int st 1000)) (n_of_int (rnd_int st 1000)) (List.map (fun v -> (gen_prev st, v)) vals))
let rstr st (s : string) : byte list =   (* the blob as an RDB string: raw or LZF *)
  if rnd_int st 4 = 0 && s <> "" then begin
    let blob = Rdbgen.lzf_compress s in
    enc_string (SLzf (Rdbgen.form st (String.length blob), Rdbgen.form st (String.length s), bs blob, n_of_int (String.length s)))
  end else enc_string (SRaw (Rdbgen.form st (String.length s), bs s))

let gen_compact st : string * int * string * logical option =
  match rnd_int st 7 with
  | 0 ->
      let vals = List.init (rnd_int st 6) (fun _ -> gen_zval st) in
      ("ziplist list", 10, string_of_bytes (rstr st (ziplist st vals)), Some (LList (List.map zval_logical vals)))
  | 1 ->
      let n = rnd_int st 4 in
      let vals = List.init (2 * n) (fun _ -> gen_zval st) in
      let l = List.map zval_logical vals in
      let rec prs = function a :: b :: r -> (a, b) :: prs r | _ -> [] in
      ("ziplist hash", 13, string_of_bytes (rstr st (ziplist st vals)), Some (LHash (prs l)))
  | 2 ->
      let n = rnd_int st 4 in
      let ms = List.init n (fun _ -> (gen_zval st, score_bits st)) in
      let ms = List.map (fun (m, b) -> (m, if is_nan b then pinf_bits else b)) ms in
      let score_val b = let t = if b = pinf_bits then "inf" else if b = ninf_bits then "-inf" else string_of_bytes (fmt_g17 b) in
        if String.length t < 64 then ZStr6 (bs t) else ZStr14 (bs t) in
      let vals = List.concat_map (fun (m, b) -> [ m; score_val b ]) ms in
      ("ziplist zset", 12, string_of_bytes (rstr st (ziplist st vals)), Some (LZSet (List.map (fun (m, b) -> (zval_logical m, b)) ms)))
  | 3 ->
      let w = rnd_pick st [ 2; 4; 8 ] in
      let lim = match w with 2 -> [ "-32768"; "32767"; "5" ] | 4 -> [ "-2147483648"; "2147483647"; "70000" ] | _ -> [ "-9223372036854775808"; "9223372036854775807"; "5000000000" ] in
      let zs = List.init (rnd_int st 6) (fun _ -> rnd_pick st lim) in
      (Printf.sprintf "intset %d" (8 * w), 11, string_of_bytes (rstr st (string_of_bytes (enc_intset (n_of_int w) (List.map z_of_decimal zs)))),
           Some (LSet (List.map bs zs)))
  | 4 ->
      let n = if rnd_int st 25 = 0 then 254 + rnd_int st 4 else rnd_int st 5 in
      let ps = List.init n (fun i -> if n >= 254 then (string_of_int i, "v", "") else
                              (rnd_string st (rnd_pick st [ 0; 1; 7; 252 ]), rnd_string st (rnd_pick st [ 0; 3; 100; 252 ]), String.make (rnd_int st 4) 'f')) in
      let zmlen = min n 254 in
      ("zipmap", 9, string_of_bytes (rstr st (string_of_bytes (enc_zipmap (n_of_int zmlen) (List.map (fun (k, v, f) -> ((bs k, bs v), bs f)) ps)))),
           Some (LHash (List.map (fun (k, v, _) -> (bs k, bs v)) ps)))
  | 5 ->
      let nz = rnd_int st 4 in
      let zls = List.init nz (fun _ -> List.init (rnd_int st 4) (fun _ -> gen_zval st)) in
      let body = enc_len (Rdbgen.form st nz) (n_of_int nz) @ List.concat_map (fun vals -> rstr st (ziplist st vals)) zls in
      ("quicklist", 14, string_of_bytes body, Some (LList (List.map zval_logical (List.concat zls))))
  | _ ->
      let n = rnd_int st 4 in
      let ms = List.init n (fun _ -> (gen_str st, Bytes.to_string (Bytes.init 8 (fun _ -> Char.chr (rnd_int st 256))))) in
      let body = enc_len (Rdbgen.form st n) (n_of_int n) @ List.concat_map (fun (m, raw) -> enc_string (SRaw (Rdbgen.form st (String.length m), bs m)) @ bs raw) ms in
      let bits raw = le_dec (bs raw) in
      ("zset2 binary scores", 5, string_of_bytes body, Some (LZSet (List.map (fun (m, raw) -> (bs m, (let b = bits raw in if is_nan b then b else b))) ms)))

