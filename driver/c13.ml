(* c13.ml — cases, model runs and oracle for C13 (key filtering of multi-key commands). *)
open Glue
open Frame

type case = {
  kind : string;            (* W | B | N *)
  prefixes : string list;
  cmd : string;
  lead : string list; groups : string list list; trailing : string list;
  known : bool;             (* command is in the table *)
  via_parser : Incrgen.case option;   (* Some: not a direct call - a source stream through the incremental parser / sender with a key filter configured *)
}

let id = "C13"
let rule = "every command of Redis's key-specification table (Spec/RedisKeySpecs; the regenerated table of the tool is proved equal to it) x its valid argument shapes (1..3 key groups, 0..2 trailing options where the row allows, \
leading sub-command where firstkey>1) x ALL pass/reject assignments of the keys x whitelist/blacklist phrasing, plus unknown commands and no-filter \
configurations, plus source streams pushed through the real incremental parser and sender under key-filter configurations (what the filter's verdict does to the NEXT command); companions/options are chosen so that they WOULD be rejected if examined as keys; non-trivial = >=2 keys with mixed verdicts; distinct by wire line"

(* the cases and the oracle follow REDIS's key specification (Spec/RedisKeySpecs, extracted), not the table regenerated from
   redis_command.go: a row of the tool's table that names other arguments as keys shows up as a wrong forwarded command *)
let table : (string * (int * int * int)) list =
  List.map (fun (n, ((f, l), s)) -> (string_of_bytes n, (int_of_z f, int_of_z l, int_of_z s))) Model.redis_key_specs

let rec assignments n = if n = 0 then [ [] ] else List.concat_map (fun a -> [ true :: a; false :: a ]) (assignments (n - 1))

let gen st tier =
  let thorough = tier = "thorough" in
  let cases = ref [] in
  List.iter (fun (cmd, (first, last, step)) ->
    let ngs = if last > 0 then [ (last - first + 1 + step - 1) / step ] else if thorough then [ 1; 2; 3; 4 ] else [ 1; 2; 3 ] in
    let nts = if last > 0 then [ 0; 1; 2 ] else if last = 0 then [ 0 ] else [ - last - 1 ] in
    List.iter (fun ng -> List.iter (fun nt ->
      List.iter (fun asg ->
        List.iter (fun kind ->
          (* whitelist "p": keys starting with p pass; blacklist "r": keys starting with r are rejected *)
          let prefixes = if kind = "W" then [ "p"; "px" ] else [ "r"; "zz" ] in
          let bad = if kind = "W" then "q" else "r" in   (* a token that fails as a key *)
          let lead = List.init (first - 1) (fun i -> bad ^ "lead" ^ string_of_int i) in
          let groups = List.mapi (fun i pass ->
            let key = (if pass then "p" else if kind = "W" then "q" else "r") ^ "key" ^ string_of_int i ^ rnd_string_of st "ab{}" (rnd_int st 3) in
            key :: List.init (step - 1) (fun j -> bad ^ "val" ^ string_of_int (i * 10 + j))) asg in
          let trailing = List.init nt (fun i -> bad ^ "opt" ^ string_of_int i) in
          cases := { kind; prefixes; cmd; lead; groups; trailing; known = true; via_parser = None } :: !cases) [ "W"; "B" ])
        (assignments ng)) nts) ngs) table;
  (* no filter configured / unknown command: unchanged *)
  let extra = List.concat_map (fun (cmd, known) ->
    [ { kind = "N"; prefixes = []; cmd; lead = []; groups = [ [ "rk1" ]; [ "pk2" ] ]; trailing = [ "x" ]; known; via_parser = None };
      { kind = "W"; prefixes = [ "p" ]; cmd; lead = []; groups = [ [ "qk1" ]; [ "qk2" ] ]; trailing = []; known; via_parser = None } ])
    [ ("flushall", false); ("zunionstore", false); ("SET", false); ("del", true); ("mset", true) ] in
  (* checkpoint keys are always rejected *)
  let cp = [ { kind = "B"; prefixes = [ "zz" ]; cmd = "del"; lead = []; groups = [ [ "redis-shake-checkpoint" ]; [ "a" ]; [ "redis-shake-checkpoint-abcd" ] ]; trailing = []; known = true; via_parser = None } ] in
  (* the same filter reached through the incremental parser and sender (C03's harness): streams under the key-filter configurations,
     in which key-rejected commands stand next to commands without arguments, transactions, multi-key and unknown commands *)
  let blank = { kind = "N"; prefixes = []; cmd = ""; lead = []; groups = []; trailing = []; known = false; via_parser = None } in
  (* grouped by configuration: the probe runs the cases of one configuration together *)
  let parser_cases = List.concat_map (fun ci -> List.init (if thorough then 130 else 14) (fun _ ->
      { blank with via_parser = Some (Incrgen.gen_case st (List.nth Incrgen.configs ci)) })) [ 1; 2; 6 ] in
  List.rev !cases @ extra @ cp @ parser_cases

(* F12 witnesses *)
let corpus = [
  { kind = "W"; prefixes = [ "p" ]; cmd = "unlink"; lead = []; groups = [ [ "pk" ] ]; trailing = []; known = true; via_parser = None };
  { kind = "W"; prefixes = [ "p" ]; cmd = "bitop"; lead = [ "AND" ]; groups = [ [ "pd" ]; [ "ps" ]; [ "qs" ] ]; trailing = []; known = true; via_parser = None };
  { kind = "B"; prefixes = [ "r" ]; cmd = "sunionstore"; lead = []; groups = [ [ "d" ]; [ "ra" ]; [ "rb" ] ]; trailing = []; known = true; via_parser = None };
  { kind = "W"; prefixes = [ "p" ]; cmd = "blpop"; lead = []; groups = [ [ "qa" ]; [ "pb" ] ]; trailing = [ "0" ]; known = true; via_parser = None };
  (* through the parser: a command whose only key is rejected, directly followed by commands without arguments *)
  { kind = "N"; prefixes = []; cmd = ""; lead = []; groups = []; trailing = []; known = false;
    via_parser = Some { Incrgen.cfg = List.nth Incrgen.configs 6; startdb = 0; base = 0; cuts = [ (0, 0) ];
                        cmds = List.map (fun w -> (w, 0)) [ [ "select"; "0" ]; [ "multi" ]; [ "set"; "a1"; "1" ]; [ "set"; "b1"; "2" ]; [ "exec" ]; [ "set"; "a2"; "3" ];
                                                            [ "del"; "b1"; "b2" ]; [ "flushdb" ]; [ "ping" ]; [ "mset"; "a1"; "1"; "b2"; "2" ]; [ "incr"; "k" ] ] } } ]

let args_of c = c.lead @ List.concat c.groups @ c.trailing

let to_line c = match c.via_parser with Some ic -> Incrgen.to_line ic | None ->
  Printf.sprintf "hfk %s %s %s %s" c.kind (if c.prefixes = [] then "-" else String.concat "," (List.map hex_of_string c.prefixes))
    (hex_of_string c.cmd) (String.concat " " (List.map hex_of_string (args_of c)))

let show c = match c.via_parser with Some ic -> "through the incremental parser and sender: " ^ Incrgen.show ic | None ->
  Printf.sprintf "%s %s under %s" c.cmd (String.concat " " (args_of c))
    (match c.kind with "W" -> "whitelist [" ^ String.concat ";" c.prefixes ^ "]" | "B" -> "blacklist [" ^ String.concat ";" c.prefixes ^ "]" | _ -> "no key filter")

let key_passes c k =
  let has p = String.length k >= String.length p && String.sub k 0 (String.length p) = p in
  let cp = "redis-shake-checkpoint" in
  if has cp then false else
  match c.kind with
  | "W" -> List.exists has c.prefixes
  | "B" -> not (List.exists has c.prefixes)
  | _ -> true

let classify c = if c.via_parser <> None then Some "via-parser" else
  if c.kind = "N" || not c.known then Some "unchanged-path" else
  let v = List.map (fun g -> key_passes c (List.hd g)) c.groups in
  if List.length v >= 2 && List.mem true v && List.mem false v then Some ("mixed:" ^ c.cmd) else Some "uniform"

let fail kind sig_ model impl detail = Fail { kind; sig_; model; impl; detail }

let judge c obs = match c.via_parser with Some ic -> C03.judge ic obs | None ->
  let impl = String.concat " " obs in
  let cfg = { Model.key_black = (if c.kind = "B" then List.map bytes_of_string c.prefixes else []);
              key_white = (if c.kind = "W" then List.map bytes_of_string c.prefixes else []);
              db_black = []; db_white = []; slot_list = []; filter_lua = false } in
  let (ma, mf) = Model.handle_filter_key cfg (bytes_of_string c.cmd) (List.map bytes_of_string (args_of c)) in
  let render f args = String.concat " " ((if f then "1" else "0") :: List.map hex_of_string args) in
  let model = render mf (List.map string_of_bytes ma) in
  (* oracle from the property text, independent of the model of getMatchKeys *)
  let expected =
    if c.kind = "N" || not c.known then render false (args_of c)
    else begin
      let kept = List.filter (fun g -> key_passes c (List.hd g)) c.groups in
      render (kept = []) (c.lead @ List.concat kept @ c.trailing)
    end in
  (* when the command is dropped the rewritten argv is irrelevant: compare the verdict only *)
  let norm s = if String.length s > 0 && s.[0] = '1' then "1" else s in
  if norm impl <> norm expected then
    fail "oracle" ("cmd=" ^ c.cmd) expected impl "forwarded command differs from: leading args ++ groups of passing keys ++ trailing args (dropped iff no key passes)"
  else if norm impl <> norm model then fail "diff" "model" model impl "" else Agree
