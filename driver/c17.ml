(* c17.ml — cases, model runs and oracle for C17 (decode mode). *)
open Glue
open Frame
open Model
open Valgen

type kspec = { db : int; exp : int; key : string; t : int; body : string (* the value's RDB encoding *); v : logical }
type item = Key of kspec | Lua of string
type case = { parallel : int; items : item list; desc : string }

let id = "C17"
let rule = "RDB files of 0..12 keys over several databases: strings (raw, integer-encoded, LZF), lists, sets, hashes, sorted sets (text and binary scores) in plain \
and compact encodings (ziplist, intset, zipmap, quicklist) with binary keys / fields / members (every byte value), expiry, lua script records; scores incl. +-0, \
subnormals, extremes and (separately) +-inf; parallel in {1,2,3,8,32}; the real decode command (hook) on a temporary file in child processes; every output line is \
parsed (JSON), its base64 fields decoded with the extracted b64_decode and compared with the expected lines as a multiset, plus contiguity of each key's lines and \
list indices; non-trivial = at least one collection; distinct by wire line"

let bs = bytes_of_string
let rstr st s = Rdbgen.(SRaw (form st (String.length s), bs s))
let enc_rs st s = string_of_bytes (enc_string (rstr st s))

let gen_key st = match rnd_int st 4 with 0 -> rnd_string st (1 + rnd_int st 10) | 1 -> "k\x00\xff" ^ string_of_int (rnd_int st 100) | _ -> "key:" ^ string_of_int (rnd_int st 1000)

let gen_kspec st ~inf db =
  let exp = rnd_pick st [ 0; 0; 1600000000000 + rnd_int st 100000 ] in
  let key = gen_key st in
  if rnd_int st 3 = 0 then begin
    let rec pick () = match gen_compact st with
      | (_, t, body, Some v) when C02.nonempty v && C02.no_nan v = v && (inf || (match v with LZSet l -> List.for_all (fun (_, b) -> b <> pinf_bits && b <> ninf_bits) l | _ -> true))
                                  && not (t = 9 && (match v with LHash l -> List.length l >= 254 || List.exists (fun (a, b) -> List.length a >= 253 || List.length b >= 253) l | _ -> false)) -> (t, body, v)
      | _ -> pick () in
    let (t, body, v) = pick () in
    { db; exp; key; t; body; v }
  end else begin
    let v = C02.no_nan (gen_logical st) in
    let v = if C02.nonempty v then v else LString (bs "s") in
    let v = match v with LZSet l when not inf -> LZSet (List.map (fun (m, b) -> (m, if b = pinf_bits || b = ninf_bits then bits_of_float 2.0 else b)) l) | v -> v in
    let p = string_of_bytes (encode_dump fmt_g17 v) in
    { db; exp; key; t = Char.code p.[0]; body = String.sub p 1 (String.length p - 11); v }
  end

let gen_case st ~inf =
  let n = rnd_int st 13 in
  let dbs = List.sort_uniq compare (List.init (1 + rnd_int st 3) (fun _ -> rnd_pick st [ 0; 1; 7; 300 ])) in
  let items = List.concat_map (fun db ->
    List.concat (List.init (1 + n / List.length dbs) (fun _ ->
      (if rnd_int st 6 = 0 then [ Lua (rnd_pick st [ "return 1"; "return redis.call('get', KEYS[1])"; "-- \"quoted\" <&>\nreturn 2" ]) ] else []) @ [ Key (gen_kspec st ~inf db) ]))) dbs in
  { parallel = rnd_pick st [ 1; 2; 3; 8; 32 ]; items; desc = if inf then "infinite scores allowed" else "" }

let gen st tier =
  let n = if tier = "thorough" then 8000 else 500 in
  List.init n (fun i -> gen_case st ~inf:(i mod 10 = 9))

let corpus = [
  (* F14 witness: a sorted set with score +inf *)
  { parallel = 1; desc = "F14 witness: score +inf";
    items = [ Key { db = 0; exp = 0; key = "z"; t = 3; body = string_of_bytes (enc_len L6 (n_of_int 1) @ enc_string (SRaw (L6, bs "m")) @ [ byte_of_char '\254' ]); v = LZSet [ (bs "m", pinf_bits) ] } ] };
  (* a list of more than 65536 elements: every element line carries its own index *)
  (let n = 66000 in
   let el i = String.make 1 (Char.chr (97 + i mod 26)) in
   { parallel = 2; desc = "a list of 66000 elements";
     items = [ Key { db = 0; exp = 0; key = "biglist"; t = 1;
                     body = string_of_bytes (enc_len L32 (n_of_int n)) ^ String.concat "" (List.init n (fun i -> "\x01" ^ el i));
                     v = LList (List.init n (fun i -> bs (el i))) } ] });
  (* a lua script record *)
  { parallel = 2; desc = "lua record"; items = [ Lua "return 1"; Key { db = 0; exp = 0; key = "s"; t = 0; body = "\x01v"; v = LString (bs "v") } ] } ]

let image c =
  let b = Buffer.create 256 in
  Buffer.add_string b "REDIS0009";
  let cur = ref (-1) in
  List.iter (function
    | Lua s -> Buffer.add_char b '\250'; Buffer.add_string b "\x03lua"; Buffer.add_string b (string_of_bytes (enc_string (SRaw ((if String.length s < 64 then L6 else L14), bs s))))
    | Key k ->
        if k.db <> !cur then (cur := k.db; Buffer.add_char b '\254'; Buffer.add_string b (string_of_bytes (enc_len (if k.db < 64 then L6 else L14) (n_of_int k.db))));
        if k.exp <> 0 then (Buffer.add_char b '\252'; Buffer.add_string b (string_of_bytes (le_enc (nat_of_int 8) (n_of_int k.exp))));
        Buffer.add_char b (Char.chr k.t);
        Buffer.add_string b (string_of_bytes (enc_string (SRaw ((if String.length k.key < 64 then L6 else L14), bs k.key))));
        Buffer.add_string b k.body) c.items;
  Buffer.add_char b '\255';
  let body = Buffer.contents b in
  body ^ Rdbgen.le64 (ext_digest (bs body))

let to_line c = Printf.sprintf "dec %d %s" c.parallel (hex_of_string (image c))
let show c =
  Printf.sprintf "parallel=%d %s; %s" c.parallel c.desc
    (let s = String.concat "; " (List.map (function Lua s -> Printf.sprintf "lua %S" s | Key k -> Printf.sprintf "db%d %S (type %d, expire %d) = %s" k.db k.key k.t k.exp (show_l k.v)) c.items) in
     if String.length s > 1500 then String.sub s 0 1500 ^ "..." else s)

let classify c =
  let colls = List.filter (function Key { v = LString _; _ } | Lua _ -> false | _ -> true) c.items in
  if colls = [] then None else
  Some (Printf.sprintf "p%d:%s%s" c.parallel (if List.exists (function Key k -> k.t >= 9 | Lua _ -> false) c.items then "compact" else "plain")
          (if List.exists (function Lua _ -> true | _ -> false) c.items then "+lua" else ""))

let fail kind sig_ model impl detail = Fail { kind; sig_; model; impl; detail }

(* ---- a small JSON reader for flat objects ---- *)
type jv = JS of string | JN of string
let parse_obj (s : string) : (string * jv) list =
  let n = String.length s in
  let i = ref 0 in
  let expect ch = if !i < n && s.[!i] = ch then incr i else failwith (Printf.sprintf "json: expected %c at %d" ch !i) in
  let utf8 b cp =
    if cp < 0x80 then Buffer.add_char b (Char.chr cp)
    else if cp < 0x800 then (Buffer.add_char b (Char.chr (0xc0 lor (cp lsr 6))); Buffer.add_char b (Char.chr (0x80 lor (cp land 0x3f))))
    else (Buffer.add_char b (Char.chr (0xe0 lor (cp lsr 12))); Buffer.add_char b (Char.chr (0x80 lor ((cp lsr 6) land 0x3f))); Buffer.add_char b (Char.chr (0x80 lor (cp land 0x3f)))) in
  let str () =
    expect '"';
    let b = Buffer.create 16 in
    while s.[!i] <> '"' do
      if s.[!i] = '\\' then begin
        incr i;
        (match s.[!i] with
         | 'n' -> Buffer.add_char b '\n' | 't' -> Buffer.add_char b '\t' | 'r' -> Buffer.add_char b '\r' | 'b' -> Buffer.add_char b '\b' | 'f' -> Buffer.add_char b '\012'
         | 'u' -> utf8 b (int_of_string ("0x" ^ String.sub s (!i + 1) 4)); i := !i + 4
         | ch -> Buffer.add_char b ch);
        incr i
      end else (Buffer.add_char b s.[!i]; incr i)
    done;
    incr i; Buffer.contents b in
  expect '{';
  let out = ref [] in
  let continue = ref true in
  while !continue do
    let k = str () in
    expect ':';
    let v = if s.[!i] = '"' then JS (str ()) else begin
        let st = !i in
        while !i < n && s.[!i] <> ',' && s.[!i] <> '}' do incr i done;
        JN (String.sub s st (!i - st)) end in
    out := (k, v) :: !out;
    if s.[!i] = ',' then incr i else (expect '}'; continue := false)
  done;
  List.rev !out

type line = { ty : string; ldb : int; lexp : int; lkey : string; sub : string; value : string; score : string; idx : int }
let unb64 what s = match b64_decode (bs s) with Some b -> string_of_bytes b | None -> failwith (what ^ " is not base64: " ^ s)
let read_line (l : string) : line =
  let o = parse_obj l in
  let gs k = match List.assoc_opt k o with Some (JS s) -> s | _ -> "" and gn k = match List.assoc_opt k o with Some (JN s) -> s | _ -> "0" in
  let ty = gs "type" in
  if ty = "aux" then { ty; ldb = -1; lexp = 0; lkey = gs "key"; sub = ""; value = unb64 "aux value64" (gs "value64"); score = ""; idx = 0 }
  else
    { ty; ldb = int_of_string (gn "db"); lexp = int_of_string (gn "expireat"); lkey = unb64 "key64" (gs "key64");
      sub = (match ty with "hash" -> unb64 "field64" (gs "field64") | "set" | "zset" -> unb64 "member64" (gs "member64") | _ -> "");
      value = (match ty with "string" | "list" | "hash" -> unb64 "value64" (gs "value64") | _ -> "");
      score = (if ty = "zset" then Printf.sprintf "%Lx" (Int64.bits_of_float (float_of_string (gn "score"))) else "");
      idx = (if ty = "list" then int_of_string (gn "index") else 0) }

let bits_hex b = Printf.sprintf "%Lx" (Int64.of_string ("0u" ^ decimal_of_n b))
let expected_lines c : line list list =
  List.map (function
    | Lua s -> [ { ty = "aux"; ldb = -1; lexp = 0; lkey = "lua"; sub = ""; value = s; score = ""; idx = 0 } ]
    | Key k ->
        let mk ty sub value score idx = { ty; ldb = k.db; lexp = k.exp; lkey = k.key; sub; value; score; idx } in
        (match k.v with
         | LString s -> [ mk "string" "" (string_of_bytes s) "" 0 ]
         | LList l -> List.mapi (fun i x -> mk "list" "" (string_of_bytes x) "" i) l
         | LSet l -> List.map (fun m -> mk "set" (string_of_bytes m) "" "" 0) l
         | LHash l -> List.map (fun (f, v) -> mk "hash" (string_of_bytes f) (string_of_bytes v) "" 0) l
         | LZSet l -> List.map (fun (m, b) -> mk "zset" (string_of_bytes m) "" (bits_hex b) 0) l)) c.items

let show_line l = Printf.sprintf "%s db%d exp%d %S %S %S %s #%d" l.ty l.ldb l.lexp l.lkey l.sub l.value l.score l.idx

let judge c obs =
  let impl = let s = String.concat " " obs in if String.length s > 600 then String.sub s 0 600 ^ "..." else s in
  let exp = expected_lines c in
  let has_inf = List.exists (function Key { v = LZSet l; _ } -> List.exists (fun (_, b) -> b = pinf_bits || b = ninf_bits) l | _ -> false) c.items in
  let expect = Printf.sprintf "%d lines" (List.length (List.concat exp)) in
  if Srcgen.field obs "abort" <> None || Srcgen.field obs "panic" <> None then
    fail "oracle" (if has_inf then "abort:score-infinite" else "abort") expect impl "decode mode aborted"
  else if Srcgen.field obs "ret" <> Some "ok" then fail "oracle" "no-termination" expect impl "decode mode did not end when the file was exhausted"
  else begin
    let out = match Srcgen.field obs "out" with Some "-" | None -> "" | Some h -> string_of_hex h in
    let raw_lines = List.filter (fun l -> l <> "") (String.split_on_char '\n' out) in
    match (try Stdlib.Ok (List.map read_line raw_lines) with Failure m -> Stdlib.Error m | Not_found -> Stdlib.Error "malformed line" | Invalid_argument m -> Stdlib.Error m) with
    | Stdlib.Error m -> fail "oracle" (if String.length m >= 11 && String.sub m 0 11 = "aux value64" then "aux-value64-not-base64" else "unreadable-line") expect impl ("an output line cannot be read back: " ^ m)
    | Stdlib.Ok lines ->
        let norm l = List.sort compare l in
        let flat = List.concat exp in
        if norm lines <> norm flat then begin
          let missing = List.filter (fun x -> not (List.mem x lines)) flat and extra = List.filter (fun x -> not (List.mem x flat)) lines in
          fail "oracle" (if List.length lines <> List.length flat then "line-count" else "line-content") expect
            (Printf.sprintf "%d lines; missing: %s; unexpected: %s" (List.length lines) (String.concat " | " (List.map show_line (List.filteri (fun i _ -> i < 3) missing)))
               (String.concat " | " (List.map show_line (List.filteri (fun i _ -> i < 3) extra))))
            "the decoded lines are not exactly the elements of the file"
        end else begin
          (* blocks: the lines of one record are contiguous and in element order *)
          let rec blocks_ok (ls : line list) (pending : line list list) = match ls with
            | [] -> pending = []
            | l :: _ ->
                (match List.find_opt (fun b -> b <> [] && List.hd b = l) pending with
                 | Some b ->
                     let n = List.length b in
                     let rec take k l = if k = 0 then ([], l) else match l with x :: r -> let (a, r') = take (k - 1) r in (x :: a, r') | [] -> ([], []) in
                     let (hd, rest) = take n ls in
                     let rec remove_one x = function [] -> [] | y :: r -> if y == x then r else y :: remove_one x r in
                     hd = b && blocks_ok rest (remove_one b pending)
                 | None -> false) in
          if not (blocks_ok lines (List.filter (fun b -> b <> []) exp)) then
            fail "oracle" "block-order" expect impl "the lines of one key are not contiguous / not in element order"
          else begin
            (* the model's lines for every record *)
            let bad = List.exists2 (fun it el -> match it with
              | Lua _ -> false
              | Key { v = LList l; _ } when List.length l > 5000 -> false   (* judged by the oracle above only: the extracted model is too slow on a 66000-element value *)
              | Key k ->
                  let e = { e_db = n_of_int k.db; e_key = bs k.key; e_type = n_of_int k.t; e_value = create_value_dump (byte_of_char (Char.chr k.t)) (bs k.body);
                            e_expire = n_of_int k.exp; e_real_count = N0; e_need_len = n_of_int 1; e_idle = N0; e_freq = N0 } in
                  (match lines_of parse_float e with
                   | Some ml -> List.length ml <> List.length el || recover ml <> Some k.v
                   | None -> true)) c.items exp in
            if bad then fail "diff" "decode-model" "the model's lines do not read back to the value" impl "model and implementation disagree" else Agree
          end
        end
  end
