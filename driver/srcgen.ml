(* srcgen.ml — cases for the fake replication source (C05 hand-off, C08 offsets): reply framings,
   fragmentations, timed traffic histories with drops; shared observation parsing. *)
open Glue

type conn = { hdr : string; acts : string list }
type case = {
  mode : string;                (* "psync" | "dump" *)
  start : int; runid : string;
  nrdb : int; seed_r : int; ncmd : int; seed_c : int;
  chunk : int; pause_us : int;  (* the consumer's read size / pause between reads *)
  conns : conn list;
  quiet : bool;                 (* bursts keep clear of the acknowledgement ticks *)
  note : string;
}

let to_line c =
  Printf.sprintf "%s %d %d %d %d %d %d:%d %s" c.mode c.start c.nrdb c.seed_r c.ncmd c.seed_c c.chunk c.pause_us
    (String.concat " " (List.map (fun k -> Printf.sprintf "%s|%s" (if k.hdr = "" then "-" else hex_of_string k.hdr) (String.concat "," k.acts)) c.conns))

let show c =
  Printf.sprintf "%s: source announces runid %S offset %d; reply header %S; %d RDB bytes (payload seed %d), %d command-stream bytes (seed %d); consumer reads %d bytes / %d us; %s; scripts: %s"
    c.mode c.runid c.start (match c.conns with k :: _ -> k.hdr | [] -> "") c.nrdb c.seed_r c.ncmd c.seed_c c.chunk c.pause_us c.note
    (String.concat " || " (List.map (fun k -> String.concat "," k.acts) c.conns))

let rnd_case_word st w = String.map (fun ch -> if rnd_bool st then Char.uppercase_ascii ch else Char.lowercase_ascii ch) w

let rnd_runid st =
  match rnd_int st 4 with
  | 0 -> rnd_string_of st "abcdefghijklmnopqrstuvwxyzABCDEFGHIJKLMNOPQRSTUVWXYZ0123456789-_?" (1 + rnd_int st 12)
  | _ -> rnd_string_of st "0123456789abcdef" 40

let rnd_offset st =
  match rnd_int st 5 with
  | 0 -> rnd_pick st [ 0; 0; 1; rnd_int st 10 ] | 1 -> rnd_int st 100000 | 2 -> (1 lsl 31) - rnd_int st 3 + rnd_int st 3
  | 3 -> (1 lsl 40) + rnd_int st 1000000 | _ -> (1 lsl 61) + rnd_int st 1000

(* "+FULLRESYNC <runid> <offset>\r\n" preceded / followed by keep-alive newlines, then "$n\r\n" *)
let full_header st runid start n =
  let k1 = rnd_pick st [ 0; 0; 0; 1; 3 ] and k2 = rnd_pick st [ 0; 0; 1; 2; 7 ] in
  String.make k1 '\n' ^ "+" ^ rnd_case_word st "FULLRESYNC" ^ " " ^ runid ^ " " ^ string_of_int start ^ "\r\n"
  ^ String.make k2 '\n' ^ "$" ^ string_of_int n ^ "\r\n"

let interesting_sizes = [ 1; 2; 7; 100; 4095; 8191; 8192; 8193; 16384; 16385; 24575; 40000; 65536; 100001 ]

(* cut the first [total] bytes into segments: cuts near the given hot positions plus random ones *)
let segments st total hot =
  let cuts = ref [] in
  List.iter (fun h -> List.iter (fun d -> if rnd_int st 3 = 0 then cuts := (h + d) :: !cuts) [ -2; -1; 0; 1; 2 ]) hot;
  for _ = 1 to rnd_int st 6 do cuts := rnd_int st (total + 1) :: !cuts done;
  if rnd_int st 8 = 0 then for i = 1 to min total 40 do cuts := i :: !cuts done;   (* byte by byte at the start *)
  let cuts = List.sort_uniq compare (List.filter (fun x -> x > 0 && x < total) !cuts) in
  let rec go prev = function [] -> [ total - prev ] | x :: r -> (x - prev) :: go x r in
  List.filter (fun x -> x > 0) (go 0 cuts)

let send_acts st segs =
  List.concat_map (fun k -> let s = Printf.sprintf "S%d" k in
                            match rnd_int st 4 with 0 -> [ s; Printf.sprintf "P%d" (1 + rnd_int st 4) ] | _ -> [ s ]) segs

(* ---- C05: framings x fragmentations ---- *)
let gen_handoff st ~big =
  let dump = rnd_int st 5 = 0 in
  let nrdb = if big then rnd_pick st [ 33554432 - 1; 33554432 + 8193; 40000000; 8192 * 4096 ] else
      (* dump mode: a fifth of the files are 6..7 MB - below the writer's buffer, so that the whole file depends on the final flush *)
      if dump && rnd_int st 5 = 0 then 6000000 + rnd_int st 1000000 else
      match rnd_int st 4 with 0 -> 1 + rnd_int st 50 | 1 -> rnd_pick st interesting_sizes | 2 -> 8192 * (1 + rnd_int st 5) + rnd_int st 3 - 1 | _ -> 1 + rnd_int st 70000 in
  let ncmd = if big then rnd_pick st [ 1; 100000; 33554432 + 5 ] else match rnd_int st 4 with 0 -> 0 | 1 -> 1 + rnd_int st 30 | 2 -> rnd_pick st interesting_sizes | _ -> rnd_int st 50000 in
  let runid = rnd_runid st and start = rnd_offset st in
  let hdr = if dump then String.make (rnd_pick st [ 0; 0; 1; 2; 9 ]) '\n' ^ "$" ^ string_of_int nrdb ^ "\r\n" else full_header st runid start nrdb in
  let total = String.length hdr + nrdb + ncmd in
  let hl = String.length hdr in
  let hot = [ hl; hl + nrdb; hl + 8192; hl + nrdb - 8192; hl + nrdb + 8192; hl - 2; String.index hdr '\r' + 2 ]
            @ (if rnd_bool st then [ hl + (nrdb / 8192) * 8192 ] else []) in
  let segs = segments st total hot in
  let chunk = rnd_pick st [ 1; 7; 512; 4096; 8192; 65536 ] in
  (* a quarter of the PSYNC cases: after everything was sent the link drops; what the tool asks for on the new connection decides
     whether the stream the parser sees stays free of repeated / missing bytes *)
  let redrop = (not dump) && (not big) && rnd_int st 4 = 0 in
  { mode = (if dump then "dump" else "psync"); start; runid; nrdb; seed_r = rnd_int st 1000; ncmd; seed_c = rnd_int st 1000;
    chunk; pause_us = (if ncmd / chunk > 400 then 0 else rnd_pick st [ 0; 0; 0; 50; 300 ]);
    conns = (if redrop then [ { hdr; acts = send_acts st segs @ [ "P150"; "D" ] };
                              { hdr = "+CONTINUE\r\n"; acts = [ Printf.sprintf "S%d" (11 + ncmd); "P100" ] } ]
             else [ { hdr; acts = send_acts st segs } ]); quiet = true;
    note = Printf.sprintf "%d TCP segments%s" (List.length segs) (if redrop then "; then the link drops and the source serves the re-established PSYNC from the requested offset" else "") }

(* ---- C08: traffic histories over acknowledgement ticks, drops and reconnections ---- *)
let gen_history st ~quiet =
  let runid = rnd_runid st and start = rnd_offset st in
  let nrdb = rnd_pick st [ 1; 30; 9000 ] in
  let hdr0 = full_header st runid start nrdb in
  let nphase = rnd_pick st [ 1; 1; 2; 2; 3 ] in
  let full_phase = if rnd_int st 8 = 0 then -1 else if rnd_int st 4 = 0 then min 1 (nphase - 1) else 0 in
  let silent0 = nphase > 1 && rnd_int st 5 = 0 in   (* the first connection is dropped before a single command byte was sent *)
  let ncmd = ref 0 in
  let conns = List.init nphase (fun ph ->
    let nwin = if nphase = 1 then 2 + rnd_int st 3 else 1 + rnd_int st 2 in
    let full_win = if ph = full_phase then rnd_int st (max 1 (nwin - 1)) else -1 in
    let acts = ref [] in
    let add a = acts := a :: !acts in
    if ph = 0 then begin
      List.iter add (send_acts st (segments st (String.length hdr0 + nrdb) [ String.length hdr0 ]));
      add "M"
    end;
    (* bytes sent together with the reply of a reconnection *)
    if ph > 0 && rnd_bool st then begin let k = 1 + rnd_int st 300 in add (Printf.sprintf "S%d" (11 + k)); ncmd := !ncmd + k end
    else if ph > 0 then add "S11";
    for w = 0 to nwin - 1 do
      if w = full_win then begin add (Printf.sprintf "W%d" (w * 1000 + 60)); add "F" end;
      let nb = if silent0 && ph = 0 then 0 else rnd_pick st [ 0; 1; 1; 2; 3 ] in
      let times = List.sort compare (List.init nb (fun _ -> if quiet then 150 + rnd_int st 350 else rnd_int st 1000)) in
      List.iter (fun t ->
        add (Printf.sprintf "W%d" (w * 1000 + t));
        let k = rnd_pick st [ 1; 1 + rnd_int st 100; 8192; 1 + rnd_int st 30000 ] in
        add (Printf.sprintf "S%d" k); ncmd := !ncmd + k) times
    done;
    add (Printf.sprintf "W%d" (nwin * 1000 + 250 + rnd_int st 300));
    if ph < nphase - 1 then add "D";
    { hdr = (if ph = 0 then hdr0 else "+" ^ rnd_case_word st "CONTINUE" ^ "\r\n"); acts = List.rev !acts }) in
  { mode = "psync"; start; runid; nrdb; seed_r = rnd_int st 1000; ncmd = !ncmd; seed_c = rnd_int st 1000;
    chunk = 65536; pause_us = 0; conns; quiet;
    note = Printf.sprintf "%d connection(s), %s traffic, full sync finishes in phase %d" nphase (if quiet then "tick-aligned" else "continuous") full_phase }

(* ---- observations ---- *)
let field obs name =
  let p = name ^ "=" in
  let pl = String.length p in
  List.find_map (fun f -> if String.length f >= pl && String.sub f 0 pl = p then Some (String.sub f pl (String.length f - pl)) else None) obs

let field_exn obs name = match field obs name with Some v -> v | None -> failwith ("observation lacks " ^ name)

type ev = Ack of int * int * int * int * int        (* conn, value, lo, hi, full flag *)
        | Psync of int * string * int * int         (* conn, runid, offset, stream position sent *)
        | Other of string

let events obs =
  match field obs "ev" with
  | None | Some "-" -> []
  | Some s -> List.map (fun e -> match String.split_on_char ':' e with
      | [ "ack"; c; v; lo; hi; f ] -> Ack (int_of_string c, int_of_string v, int_of_string lo, int_of_string hi, int_of_string f)
      | [ "psync"; c; r; v; hi ] -> Psync (int_of_string c, (if r = "-" then "" else string_of_hex r), int_of_string v, int_of_string hi)
      | [ "bad"; m ] -> Other ("bad: " ^ string_of_hex m)
      | [ "other"; c; m ] -> Other ("conn " ^ c ^ " received " ^ string_of_hex m)
      | _ -> Other e) (String.split_on_char ',' s)
