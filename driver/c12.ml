(* c12.ml — cases, model runs and oracle for C12 (value / file serialisation round trips). *)
open Glue
open Frame
open Model

type case =
  | Enc of logical
  | Dec of string * int * string * logical option     (* description, type byte, value bytes; the logical value Redis materialises *)
  | File of (int * string * int * logical) list

let id = "C12"
let rule = "logical values (strings at the int8/16/32 boundaries, leading zeros/signs/spaces, lengths at 63/64 and 16383/16384; lists, sets, \
hashes, sorted sets with float64 bit patterns incl. +-0, subnormals, extremes, +-inf, NaN) through EncodeDump/DecodeDump; compact encodings \
(ziplist with every entry form and 1-/5-byte prevlen, intset 16/32/64, zipmap, quicklist, LZF and integer strings) produced by the Coq spec \
encoders from a known logical value through DecodeDump; sequences of (db,key,expiry,object) through NewEncoder and the Loader; \
non-trivial = non-empty value; distinct by wire line"

let bs = bytes_of_string
let fmt_g17 (b : n) : byte list = bs (Printf.sprintf "%.17g" (Int64.float_of_bits (Int64.of_string ("0u" ^ decimal_of_n b))))
let bits_of_float f = n_of_decimal (Printf.sprintf "%Lu" (Int64.bits_of_float f))
let parse_float (t : byte list) : n option =
  match float_of_string_opt (string_of_bytes t) with
  | Some f -> if Float.is_nan f then Some nan_bits else Some (bits_of_float f)
  | None -> None

let hexs s = hex_of_string s
let show_l = function
  | LString s -> "S:" ^ hex_of_bytes s
  | LList l -> "L:" ^ (if l = [] then "_" else String.concat "," (List.map hex_of_bytes l))
  | LSet l -> "T:" ^ (if l = [] then "_" else String.concat "," (List.map hex_of_bytes l))
  | LHash l -> "H:" ^ (if l = [] then "_" else String.concat "," (List.map (fun (f, v) -> hex_of_bytes f ^ "=" ^ hex_of_bytes v) l))
  | LZSet l -> "Z:" ^ (if l = [] then "_" else String.concat "," (List.map (fun (m, b) ->
        hex_of_bytes m ^ "=" ^ Printf.sprintf "%Lx" (Int64.of_string ("0u" ^ decimal_of_n b))) l))

let int_strings = [ "0"; "-1"; "127"; "128"; "-128"; "-129"; "32767"; "32768"; "-32768"; "-32769"; "2147483647"; "2147483648";
                    "-2147483648"; "-2147483649"; "007"; "+5"; "-0"; " 1"; "1 "; "12a"; ""; "9223372036854775807"; "99999999999999999999" ]
let gen_str st =
  match rnd_int st 6 with
  | 0 -> rnd_pick st int_strings
  | 1 -> string_of_int (rnd_int st 100000 - 50000)
  | 2 -> rnd_string st (rnd_pick st [ 63; 64; 65 ])
  | 3 -> if rnd_int st 20 = 0 then rnd_string st (rnd_pick st [ 16383; 16384 ]) else rnd_string st (rnd_int st 8)
  | _ -> rnd_string st (rnd_int st 20)

let score_bits st : n =
  match rnd_int st 12 with
  | 0 -> nan_bits | 1 -> pinf_bits | 2 -> ninf_bits
  | 3 -> bits_of_float 0.0 | 4 -> bits_of_float (-0.0) | 5 -> n_of_int 1 (* smallest subnormal *)
  | 6 -> bits_of_float max_float | 7 -> bits_of_float min_float | 8 -> bits_of_float (-1.5e300)
  | 9 -> n_of_decimal "9221120237041090561" (* another NaN pattern *)
  | _ -> bits_of_float (float_of_int (rnd_int st 2000000 - 1000000) /. (float_of_int (1 + rnd_int st 1000)))

let gen_logical st =
  let k = rnd_pick st [ 0; 1; 2; 3; rnd_int st 10 ] in
  match rnd_int st 5 with
  | 0 -> LString (bs (gen_str st))
  | 1 -> LList (List.init k (fun _ -> bs (gen_str st)))
  | 2 -> LSet (List.init k (fun _ -> bs (gen_str st)))
  | 3 -> LHash (List.init k (fun _ -> (bs (gen_str st), bs (gen_str st))))
  | _ -> LZSet (List.init k (fun _ -> (bs (gen_str st), score_bits st)))

(* compact encodings from the spec encoders *)
let gen_zval st : zval =
  match rnd_int st 9 with
  | 0 -> ZStr6 (bs (rnd_string st (rnd_pick st [ 0; 1; 5; 63 ])))
  | 1 -> ZStr14 (bs (rnd_string st (rnd_pick st [ 0; 64; 300 ])))
  | 2 -> ZStr32 (bs (rnd_string st (rnd_pick st [ 0; 3; 70 ])))
  | 3 -> ZI16 (z_of_int (rnd_pick st [ -32768; 32767; 300; -300 ]))
  | 4 -> ZI32 (z_of_int (rnd_pick st [ -2147483648; 2147483647; 70000 ]))
  | 5 -> ZI64 (z_of_decimal (rnd_pick st [ "-9223372036854775808"; "9223372036854775807"; "5000000000" ]))
  | 6 -> ZI24 (z_of_int (rnd_pick st [ -8388608; 8388607; 40000; -40000 ]))
  | 7 -> ZI8 (z_of_int (rnd_pick st [ -128; 127; 13; -1 ]))
  | _ -> ZImm (n_of_int (rnd_int st 13))
let gen_prev st = if rnd_int st 4 = 0 then P5 (n_of_int (rnd_pick st [ 254; 300; 70000 ])) else P1 (n_of_int (rnd_int st 254))

let ziplist st (vals : zval list) = string_of_bytes (enc_ziplist (n_of_int (rnd_int st 1000)) (n_of_int (rnd_int st 1000)) (List.map (fun v -> (gen_prev st, v)) vals))
let rstr st (s : string) : byte list =   (* the blob as an RDB string: raw or LZF *)
  if rnd_int st 4 = 0 && s <> "" then begin
    let blob = Rdbgen.lzf_compress s in
    enc_string (SLzf (Rdbgen.form st (String.length blob), Rdbgen.form st (String.length s), bs blob, n_of_int (String.length s)))
  end else enc_string (SRaw (Rdbgen.form st (String.length s), bs s))

let gen_compact st : case =
  match rnd_int st 7 with
  | 0 ->
      let vals = List.init (rnd_int st 6) (fun _ -> gen_zval st) in
      Dec ("ziplist list", 10, string_of_bytes (rstr st (ziplist st vals)), Some (LList (List.map zval_logical vals)))
  | 1 ->
      let n = rnd_int st 4 in
      let vals = List.init (2 * n) (fun _ -> gen_zval st) in
      let l = List.map zval_logical vals in
      let rec prs = function a :: b :: r -> (a, b) :: prs r | _ -> [] in
      Dec ("ziplist hash", 13, string_of_bytes (rstr st (ziplist st vals)), Some (LHash (prs l)))
  | 2 ->
      let n = rnd_int st 4 in
      let ms = List.init n (fun _ -> (gen_zval st, score_bits st)) in
      let ms = List.map (fun (m, b) -> (m, if is_nan b then pinf_bits else b)) ms in
      let score_val b = let t = if b = pinf_bits then "inf" else if b = ninf_bits then "-inf" else string_of_bytes (fmt_g17 b) in
        if String.length t < 64 then ZStr6 (bs t) else ZStr14 (bs t) in
      let vals = List.concat_map (fun (m, b) -> [ m; score_val b ]) ms in
      Dec ("ziplist zset", 12, string_of_bytes (rstr st (ziplist st vals)), Some (LZSet (List.map (fun (m, b) -> (zval_logical m, b)) ms)))
  | 3 ->
      let w = rnd_pick st [ 2; 4; 8 ] in
      let lim = match w with 2 -> [ "-32768"; "32767"; "5" ] | 4 -> [ "-2147483648"; "2147483647"; "70000" ] | _ -> [ "-9223372036854775808"; "9223372036854775807"; "5000000000" ] in
      let zs = List.init (rnd_int st 6) (fun _ -> rnd_pick st lim) in
      Dec (Printf.sprintf "intset %d" (8 * w), 11, string_of_bytes (rstr st (string_of_bytes (enc_intset (n_of_int w) (List.map z_of_decimal zs)))),
           Some (LSet (List.map bs zs)))
  | 4 ->
      let n = if rnd_int st 25 = 0 then 254 + rnd_int st 4 else rnd_int st 5 in
      let ps = List.init n (fun i -> if n >= 254 then (string_of_int i, "v", "") else
                              (rnd_string st (rnd_pick st [ 0; 1; 7; 252 ]), rnd_string st (rnd_pick st [ 0; 3; 100; 252 ]), String.make (rnd_int st 4) 'f')) in
      let zmlen = min n 254 in
      Dec ("zipmap", 9, string_of_bytes (rstr st (string_of_bytes (enc_zipmap (n_of_int zmlen) (List.map (fun (k, v, f) -> ((bs k, bs v), bs f)) ps)))),
           Some (LHash (List.map (fun (k, v, _) -> (bs k, bs v)) ps)))
  | 5 ->
      let nz = rnd_int st 4 in
      let zls = List.init nz (fun _ -> List.init (rnd_int st 4) (fun _ -> gen_zval st)) in
      let body = enc_len (Rdbgen.form st nz) (n_of_int nz) @ List.concat_map (fun vals -> rstr st (ziplist st vals)) zls in
      Dec ("quicklist", 14, string_of_bytes body, Some (LList (List.map zval_logical (List.concat zls))))
  | _ ->
      let n = rnd_int st 4 in
      let ms = List.init n (fun _ -> (gen_str st, Bytes.to_string (Bytes.init 8 (fun _ -> Char.chr (rnd_int st 256))))) in
      let body = enc_len (Rdbgen.form st n) (n_of_int n) @ List.concat_map (fun (m, raw) -> enc_string (SRaw (Rdbgen.form st (String.length m), bs m)) @ bs raw) ms in
      let bits raw = le_dec (bs raw) in
      Dec ("zset2 binary scores", 5, string_of_bytes body, Some (LZSet (List.map (fun (m, raw) -> (bs m, (let b = bits raw in if is_nan b then b else b))) ms)))

let gen st tier =
  let thorough = tier = "thorough" in
  let k = if thorough then 30 else 1 in
  let encs = List.map (fun s -> Enc (LString (bs s))) int_strings @ List.init (1500 * k) (fun _ -> Enc (gen_logical st)) in
  let decs = List.init (1200 * k) (fun _ -> gen_compact st) in
  let files = List.init (200 * k) (fun _ ->
    File (List.init (rnd_int st 6) (fun _ -> (rnd_pick st [ 0; 0; 1; 7; 300 ], gen_str st, rnd_pick st [ 0; 0; 1600000000000 + rnd_int st 1000 ], gen_logical st)))) in
  encs @ decs @ files

(* F23 witness: a zipmap value of 253 bytes or more (Redis: 254 + LE32 length) *)
let corpus =
  [ Dec ("zipmap with a 300-byte value", 9,
         string_of_bytes (enc_string (SRaw (L14, enc_zipmap (n_of_int 1) [ ((bs "k", bs (String.make 300 'v')), []) ]))),
         Some (LHash [ (bs "k", bs (String.make 300 'v')) ])) ]

let payload t body = string_of_bytes (create_value_dump (byte_of_char (Char.chr t)) (bs body))
let obj_str (db, key, exp, v) = Printf.sprintf "%d;%s;%d;%s" db (hexs key) exp (show_l v)
let to_line = function
  | Enc v -> "enc " ^ show_l v
  | Dec (_, t, body, _) -> "dec " ^ hexs (payload t body)
  | File objs -> "file " ^ (if objs = [] then "" else String.concat " " (List.map obj_str objs))
let show = function
  | Enc v -> "EncodeDump/DecodeDump of " ^ show_l v
  | Dec (d, t, body, _) -> Printf.sprintf "DecodeDump of a %s (type %d, %d value bytes)" d t (String.length body)
  | File objs -> "RDB file of objects: " ^ String.concat " " (List.map obj_str objs)

let classify = function
  | Enc (LString _) -> Some "enc:string" | Enc (LList l) -> if l = [] then None else Some "enc:list"
  | Enc (LSet l) -> if l = [] then None else Some "enc:set" | Enc (LHash l) -> if l = [] then None else Some "enc:hash"
  | Enc (LZSet l) -> if l = [] then None else Some "enc:zset"
  | Dec (d, _, _, _) -> Some ("dec:" ^ d)
  | File objs -> if objs = [] then None else Some "file"

let fail kind sig_ model impl detail = Fail { kind; sig_; model; impl; detail }

(* NaN payloads are not preserved (any NaN becomes the canonical NaN): the property compares scores numerically *)
let canon = function
  | LZSet l -> LZSet (List.map (fun (m, b) -> (m, if is_nan b then nan_bits else b)) l)
  | v -> v

let judge c obs =
  let impl = String.concat " " obs in
  match c with
  | Enc v ->
      let p = encode_dump fmt_g17 v in
      let back = match decode_dump parse_float p with Some x -> show_l x | None -> "err" in
      let model = hex_of_bytes p ^ " " ^ back in
      (match obs with
       | [ _; got ] when got = show_l (canon v) -> if impl = model then Agree else fail "diff" "encode-model" model impl "payload bytes differ from the model"
       | _ -> fail "oracle" "dump-roundtrip" model impl "decoding the serialised value does not return the value")
  | Dec (d, t, body, exp) ->
      let model = match decode_dump parse_float (bs (payload t body)) with Some x -> show_l x | None -> "err" in
      (match exp with
       | Some v when impl <> show_l (canon v) && impl <> show_l v ->
           fail "oracle" ("compact:" ^ (if String.length d >= 6 && String.sub d 0 6 = "zipmap" then
                                           (match v with
                                            | LHash ps when List.exists (fun (k, vv) -> List.length k >= 253 || List.length vv >= 253) ps -> "zipmap-item-ge-253"
                                            | LHash ps when List.length ps >= 254 -> "zipmap-ge-254-entries"
                                            | _ -> "zipmap") else d))
             model impl "decoded value differs from the logical value Redis materialises from this encoding"
       | _ -> if impl = model then Agree else fail "diff" "decode-model" model impl "")
  | File objs ->
      let img = encode_file_objs fmt_g17 (List.map (fun (db, key, exp, v) -> (((n_of_int db, bs key), n_of_int exp), v)) objs) in
      let recs = match load_all hash_chunk_limit img with
        | Loaded es -> "ok " ^ (if es = [] then "none" else String.concat " " (List.map (fun e ->
              Printf.sprintf "%d;%s;%s;%s" (int_of_n e.e_db) (hex_of_bytes e.e_key) (decimal_of_n e.e_expire)
                (match decode_dump parse_float e.e_value with Some v -> show_l v | None -> "err-obj")) es))
        | LoadFail -> "err" in
      let model = hex_of_bytes img ^ " " ^ recs in
      let expected = "ok " ^ (if objs = [] then "none" else String.concat " " (List.map (fun (db, key, exp, v) -> obj_str (db, key, exp, canon v)) objs)) in
      (match obs with
       | _ :: rest when String.concat " " rest = expected -> if impl = model then Agree else fail "diff" "file-model" model impl "file bytes differ from the model"
       | _ -> fail "oracle" "file-roundtrip" model impl "loading the written file does not return the same databases, keys, expiries and values")
