(* c12.ml — cases, model runs and oracle for C12 (value / file serialisation round trips). *)
open Glue
open Frame
open Model

type case =
  | Enc of logical
  | Dec of string * int * string * logical option     (* description, type byte, value bytes; the logical value Redis materialises *)
  | File of (int * string * int * logical) list

let id = "C12"
let rule = "logical values (strings at the int8/16/32 boundaries, leading zeros/signs/spaces, lengths at 63/64 and 16383/16384; lists, sets, \
hashes, sorted sets with float64 bit patterns incl. +-0, subnormals, extremes, +-inf, NaN) through EncodeDump/DecodeDump; compact encodings \
(ziplist with every entry form and 1-/5-byte prevlen, intset 16/32/64, zipmap, quicklist, LZF and integer strings) produced by the Coq spec \
encoders from a known logical value through DecodeDump; sequences of (db,key,expiry,object) through NewEncoder and the Loader; \
non-trivial = non-empty value; distinct by wire line"

include Valgen
let gen_compact st : case = let (d, t, b, l) = Valgen.gen_compact st in Dec (d, t, b, l)

let gen st tier =
  let thorough = tier = "thorough" in
  let k = if thorough then 30 else 1 in
  let encs = List.map (fun s -> Enc (LString (bs s))) int_strings @ List.init (1500 * k) (fun _ -> Enc (gen_logical st)) in
  let decs = List.init (1200 * k) (fun _ -> gen_compact st) in
  let files = List.init (200 * k) (fun _ ->
    File (List.init (rnd_int st 6) (fun _ -> (rnd_pick st [ 0; 0; 1; 7; 300 ], gen_str st, rnd_pick st [ 0; 0; 1600000000000 + rnd_int st 1000; 1; max_int (* 2^62-1 *); min_int (* stands for 2^64-2^62 *); -1 (* 2^64-1 *); - (1 + rnd_int st 100000) ], gen_logical st)))) in
  encs @ decs @ files

(* F23 witness: a zipmap value of 253 bytes or more (Redis: 254 + LE32 length) *)
let corpus =
  [ Dec ("zipmap with a 300-byte value", 9,
         string_of_bytes (enc_string (SRaw (L14, enc_zipmap (n_of_int 1) [ ((bs "k", bs (String.make 300 'v')), []) ]))),
         Some (LHash [ (bs "k", bs (String.make 300 'v')) ])) ]

let payload t body = string_of_bytes (create_value_dump (byte_of_char (Char.chr t)) (bs body))
let obj_str (db, key, exp, v) = Printf.sprintf "%d;%s;%s;%s" db (hexs key) (u64_str exp) (show_l v)
let to_line = function
  | Enc v -> "enc " ^ show_l v
  | Dec (_, t, body, _) -> "dec " ^ hexs (payload t body)
  | File objs -> "file " ^ (if objs = [] then "" else String.concat " " (List.map obj_str objs))
let show = function
  | Enc v -> "EncodeDump/DecodeDump of " ^ show_l v
  | Dec (d, t, body, _) -> Printf.sprintf "DecodeDump of a %s (type %d, %d value bytes)" d t (String.length body)
  | File objs -> "RDB file of objects: " ^ String.concat " " (List.map obj_str objs)

let classify = function
  | Enc (LString _) -> Some "enc:string" | Enc (LList l) -> if l = [] then None else Some "enc:list"
  | Enc (LSet l) -> if l = [] then None else Some "enc:set" | Enc (LHash l) -> if l = [] then None else Some "enc:hash"
  | Enc (LZSet l) -> if l = [] then None else Some "enc:zset"
  | Dec (d, _, _, _) -> Some ("dec:" ^ d)
  | File objs -> if objs = [] then None else Some "file"

let fail kind sig_ model impl detail = Fail { kind; sig_; model; impl; detail }

(* NaN payloads are not preserved (any NaN becomes the canonical NaN): the property compares scores numerically *)
let canon = function
  | LZSet l -> LZSet (List.map (fun (m, b) -> (m, if is_nan b then nan_bits else b)) l)
  | v -> v

let judge c obs =
  let impl = String.concat " " obs in
  match c with
  | Enc v ->
      let p = encode_dump fmt_g17 v in
      let back = match decode_dump parse_float p with Some x -> show_l x | None -> "err" in
      let model = hex_of_bytes p ^ " " ^ back in
      (match obs with
       | [ _; got ] when got = show_l (canon v) -> if impl = model then Agree else fail "diff" "encode-model" model impl "payload bytes differ from the model"
       | _ -> fail "oracle" "dump-roundtrip" model impl "decoding the serialised value does not return the value")
  | Dec (d, t, body, exp) ->
      let model = match decode_dump parse_float (bs (payload t body)) with Some x -> show_l x | None -> "err" in
      (match exp with
       | Some v when impl <> show_l (canon v) && impl <> show_l v ->
           fail "oracle" ("compact:" ^ (if String.length d >= 6 && String.sub d 0 6 = "zipmap" then
                                           (match v with
                                            | LHash ps when List.exists (fun (k, vv) -> List.length k >= 253 || List.length vv >= 253) ps -> "zipmap-item-ge-253"
                                            | LHash ps when List.length ps >= 254 -> "zipmap-ge-254-entries"
                                            | _ -> "zipmap") else d))
             model impl "decoded value differs from the logical value Redis materialises from this encoding"
       | _ -> if impl = model then Agree else fail "diff" "decode-model" model impl "")
  | File objs ->
      let img = encode_file_objs fmt_g17 (List.map (fun (db, key, exp, v) -> (((n_of_int db, bs key), n_of_u64 exp), v)) objs) in
      let recs = match load_all hash_chunk_limit img with
        | Loaded es -> "ok " ^ (if es = [] then "none" else String.concat " " (List.map (fun e ->
              Printf.sprintf "%d;%s;%s;%s" (int_of_n e.e_db) (hex_of_bytes e.e_key) (decimal_of_n e.e_expire)
                (match decode_dump parse_float e.e_value with Some v -> show_l v | None -> "err-obj")) es))
        | LoadFail -> "err" in
      let model = hex_of_bytes img ^ " " ^ recs in
      let expected = "ok " ^ (if objs = [] then "none" else String.concat " " (List.map (fun (db, key, exp, v) -> obj_str (db, key, exp, canon v)) objs)) in
      (match obs with
       | _ :: rest when String.concat " " rest = expected -> if impl = model then Agree else fail "diff" "file-model" model impl "file bytes differ from the model"
       | _ -> fail "oracle" "file-roundtrip" model impl "loading the written file does not return the same databases, keys, expiries and values")
