(* c09.ml — cases, model runs and oracle for C09 (pipe). *)
open Glue
open Frame

type op = W of int * int | R of int | B | A | CR of int option | CW of int option

type case = { backend : string; cap : int; ops : (op * string) list; expected : string }   (* op, flags; model result under the eager schedule *)

let id = "C09"
let rule = "operation sequences (Write k, Read k, zero-length reads/writes, Buffered, Available, reader/writer Close and CloseWithError) on memory \
pipes (capacity 4096/8192) and file pipes (4 MiB); chunk sizes around 1, cap-1, cap, cap+1, 2cap+5; an operation the model predicts to park is \
issued on a goroutine and released by later operations of the other side or a close (eager schedule: after every operation the woken side \
runs until it completes or parks again); non-trivial = a wrap-around or a parked operation; distinct by wire line"


let err_str = function
  | None -> "ok" | Some Model.EClosedPipe -> "closed" | Some Model.EEOF -> "eof" | Some (Model.ECustom n) -> "custom" ^ string_of_int (int_of_n n)
let out_str = function
  | Model.ORead (d, e) -> let s = string_of_bytes d in Some (Printf.sprintf "R:%d:%s:%s" (String.length s) (fnv64 s) (err_str e))
  | Model.OWrite (n, e) -> Some (Printf.sprintf "W:%d:%s" (int_of_n n) (err_str e))
  | Model.OBuffered (n, e) -> Some (Printf.sprintf "B:%d:%s" (int_of_n n) (err_str e))
  | Model.OAvailable (n, e) -> Some (Printf.sprintf "A:%d:%s" (int_of_n n) (err_str e))
  | _ -> None

let custom = function None -> None | Some n -> Some (Model.ECustom (n_of_int n))

(* run a raw op list through the extracted machine with the eager schedule; returns the ops with
   their flags and the expected per-op result strings *)
let simulate backend cap (raw : op list) =
  let unit = if backend = "file" then Model.file_align else Model.mem_align in
  let s = ref (Model.pinit (n_of_int cap) unit) in
  let n = List.length raw in
  let res = Array.make n "" and flags = Array.make n "" in
  let ri = ref (-1) and wi = ref (-1) in       (* index of the read / write in flight *)
  let ops = Array.of_list raw in
  let step ev = let (s', o) = Model.pstep !s ev in s := s'; o in
  let quiesce cur =
    let continue = ref true in
    while !continue do
      let st = !s in
      if st.Model.rreq <> None && st.Model.rst <> Model.Parked then begin
        (match step Model.StepR with
         | Model.ORead _ as o -> let str = Option.get (out_str o) in
             res.(!ri) <- res.(!ri) ^ str; if !ri <> cur && cur >= 0 then flags.(cur) <- flags.(cur) ^ "r"; ri := -1
         | _ -> ())
      end else if st.Model.wreq <> None && st.Model.wst <> Model.Parked then begin
        (match step Model.StepW with
         | Model.OWrite _ as o -> let str = Option.get (out_str o) in
             res.(!wi) <- res.(!wi) ^ str; if !wi <> cur && cur >= 0 then flags.(cur) <- flags.(cur) ^ "w"; wi := -1
         | _ -> ())
      end else continue := false
    done in
  Array.iteri (fun i op ->
    let op = match op with
      | R _ when !ri >= 0 -> B
      | W _ when !wi >= 0 -> A
      | o -> o in
    ops.(i) <- op;
    (match op with
     | R len -> ignore (step (Model.StartRead (n_of_int len))); ri := i
     | W (seed, len) -> ignore (step (Model.StartWrite (bytes_of_string (payload seed len)))); wi := i
     | B -> res.(i) <- Option.get (out_str (step Model.DoBuffered))
     | A -> res.(i) <- Option.get (out_str (step Model.DoAvailable))
     | CR e -> ignore (step (Model.RCloseEv (custom e))); res.(i) <- "c"
     | CW e -> ignore (step (Model.WCloseEv (custom e))); res.(i) <- "c");
    quiesce i;
    if !ri = i || !wi = i then begin flags.(i) <- "!" ^ flags.(i); res.(i) <- "parked>" end;
    (* a writer that is (still) parked has refilled the buffer: let the harness wait for that *)
    if !wi >= 0 && !s.Model.rerr = None then
      flags.(i) <- flags.(i) ^ "~" ^ string_of_int (int_of_n (Model.pb_buffered !s.Model.pb))) ops;
  (* the harness finally closes the writer, then the reader *)
  if !ri >= 0 || !wi >= 0 then begin
    let pending_r = !ri and pending_w = !wi in
    ignore (step (Model.WCloseEv None));
    if pending_r >= 0 then res.(pending_r) <- res.(pending_r) ^ "atend:";
    if pending_w >= 0 then res.(pending_w) <- res.(pending_w) ^ "atend:";
    quiesce (-1);
    ignore (step (Model.RCloseEv None));
    quiesce (-1)
  end;
  (List.mapi (fun i _ -> (ops.(i), flags.(i))) raw, String.concat ";" (Array.to_list res))

let gen_seq st backend cap nops =
  let size = align cap (if backend = "file" then 4194304 else 4096) in
  let big = backend = "file" in
  let raw = List.init nops (fun _ ->
    match rnd_weighted st [ (8, `W); (8, `R); (2, `B); (2, `A); (1, `CR); (1, `CW) ] with
    | `W -> let len = if big then rnd_pick st [ 0; 1; 4096; 3000000; 1500000; 4194304; 4194305 ]
              else rnd_pick st [ 0; 1; 7; 100; size - 1; size; size + 1; 2 * size + 5; rnd_int st size; rnd_int st 300 ] in
            W (rnd_int st 1000, len)
    | `R -> R (if big then rnd_pick st [ 0; 1; 1000000; 4194304; 5000000 ]
               else rnd_pick st [ 0; 1; 10; 100; size - 1; size; size + 1; 3 * size; rnd_int st size ])
    | `B -> B | `A -> A
    | `CR -> CR (if rnd_bool st then None else Some (rnd_int st 9))
    | `CW -> CW (if rnd_bool st then None else Some (rnd_int st 9))) in
  let (ops, expected) = simulate backend cap raw in { backend; cap; ops; expected }

let gen st tier =
  let thorough = tier = "thorough" in
  let mem = List.init (if thorough then 30000 else 1500) (fun _ -> gen_seq st "mem" (rnd_pick st [ 1; 4096; 5000; 9000; 12288; 20000 ]) (4 + rnd_int st 22)) in
  let file = List.init (if thorough then 60 else 5) (fun _ -> gen_seq st "file" 1 (5 + rnd_int st 6)) in
  mem @ file

let mk backend cap raw = let (ops, expected) = simulate backend cap raw in { backend; cap; ops; expected }
let corpus = [
  mk "mem" 1 [ W (1, 5000); R 10; B; A; R 5000; R 5000; CW None; R 1; R 1 ];
  mk "mem" 1 [ R 10; W (2, 3); W (3, 4096); W (4, 1); R 4096; CR (Some 7); W (5, 1); B; A ];
  mk "mem" 1 [ R 0; W (1, 0); CW (Some 3); R 0; R 5; W (2, 2) ];
  (* file-backed ring (4 MiB): the write position wraps while unread bytes are buffered *)
  mk "file" 1 [ W (1, 3145728); R 2097152; W (2, 2097152); B; A; CW None; R 3145728; R 1 ];
  mk "file" 1 [ W (3, 4194304); R 1000000; W (4, 999999); R 4194304; W (5, 3000000); R 3000000; R 4194303; B ] ]

let op_str (op, flags) =
  (match op with
   | W (s, l) -> Printf.sprintf "W%d,%d" s l | R l -> Printf.sprintf "R%d" l | B -> "B" | A -> "A"
   | CR None -> "cr" | CR (Some n) -> "cr" ^ string_of_int n | CW None -> "cw" | CW (Some n) -> "cw" ^ string_of_int n)
  ^ (if flags = "" then "" else "/" ^ flags)

let to_line c = Printf.sprintf "seq %s %d %s" c.backend c.cap (String.concat ";" (List.map op_str c.ops))
let show c = Printf.sprintf "%s pipe, capacity argument %d: %s" c.backend c.cap (String.concat " " (List.map op_str c.ops))

let classify c =
  let size = align c.cap (if c.backend = "file" then 4194304 else 4096) in
  let tot = List.fold_left (fun a (op, _) -> match op with W (_, l) -> a + l | _ -> a) 0 c.ops in
  let parked = List.exists (fun (_, f) -> String.contains f '!') c.ops in
  if tot > size && parked then Some (c.backend ^ ":wrap+park") else if tot > size then Some (c.backend ^ ":wrap")
  else if parked then Some (c.backend ^ ":park") else None

let fail kind sig_ model impl detail = Fail { kind; sig_; model; impl; detail }

(* the property from the observations alone: reads return the written stream in order *)
let oracle c (obs : string list) =
  let stream = Buffer.create 4096 in
  List.iter (fun (op, _) -> match op with W (s, l) -> Buffer.add_string stream (payload s l) | _ -> ()) c.ops;
  let bad = ref None in
  let flag i msg = if !bad = None then bad := Some (Printf.sprintf "op %d (%s): %s" i (op_str (List.nth c.ops i)) msg) in
  (* reads complete in issue order (one reader): walk them in order of op index *)
  let roff = ref 0 in
  List.iteri (fun i (op, _) ->
    let o = try List.nth obs i with _ -> "" in
    (match op with
     | R _ ->
         (* the last "R:n:h:err" group of the observation *)
         let parts = String.split_on_char ':' o in
         let rec find = function
           | tag :: n :: h :: _ :: _ when (tag = "R" || (String.length tag > 1 && String.sub tag (String.length tag - 1) 1 = "R")) -> Some (int_of_string n, h)
           | _ :: r -> find r | [] -> None in
         (match find parts with
          | Some (n, h) when n > 0 ->
              if !roff + n > Buffer.length stream then flag i "read returned more bytes than were written"
              else if fnv64 (Buffer.sub stream !roff n) <> h then flag i "bytes read are not the bytes written at that stream position (lost, duplicated or reordered)";
              roff := !roff + n
          | _ -> ())
     | _ -> ());
    if o = "hang" || (String.length o >= 5 && String.sub o (String.length o - 5) 5 = "stuck") then
      flag i "operation never returned (blocked although the model says it must proceed: lost wake-up / deadlock)") c.ops;
  !bad

let judge c obs =
  let impl = String.concat " " obs in
  let model = c.expected in
  match oracle c (String.split_on_char ';' impl) with
  | Some msg -> fail "oracle" "pipe-fifo-or-deadlock" model impl msg
  | None -> if impl = model then Agree else fail "diff" "pipe-model" model impl "observation differs from the pipe machine under the eager schedule"
