(* c07.ml — cases, model runs and oracle for C07 (the parallel worker pool of full sync / restore). *)
open Glue
open Frame
open Model

type case = {
  mode : string;               (* "sync" | "restore" *)
  parallel : int; tdb : int;
  dbblack : string list; dbwhite : string list; keyblack : string list; keywhite : string list; slots : string list; filterlua : bool;
  units : unit_ list; fail : string option;
  cut : int (* > 0: only the first [cut] bytes of the RDB image reach the tool (the source went away before the end-of-file opcode) *) }

let id = "C07"
let rule = "RDB files with 5..60 uniquely named keys spread over up to 6 databases selected in any order (databases revisited), lua script records in between, \
keys carrying black/white-listed prefixes, hash tags and the tool's checkpoint prefix, x parallel in {1,2,4,8,32} x target.db in {-1,0,2} x database / key / \
slot lists x filter.lua x mode (full sync syncRDBFile, restore restoreRDBFile), optionally one key whose RESTORE the target refuses; the real worker pools \
(hooks) over TCP against fakeredis, in child processes; the observed per-connection write sequences are replayed through the model as the schedule; \
non-trivial = keys in at least two databases and at least two workers used; distinct by wire line"

let bs = bytes_of_string
let raw s = SRaw (Rdbgen.form (Random.State.make [| String.length s |]) (String.length s), bs s)

let prefixes = [ "ab"; "user:"; "tmp" ]
(* the pseudo key that makes the fake target refuse every SCRIPT LOAD *)
let script_fail = "\000script"

let gen_case st mode =
  let nkeys = 5 + rnd_int st 56 in
  let dbs = List.init (1 + rnd_int st 6) (fun _ -> rnd_pick st [ 0; 1; 2; 3; 5; 15; 100 ]) in
  let us = ref [] in
  let add u = us := u :: !us in
  let cur = ref (-1) in
  let names = ref [] in
  for i = 1 to nkeys do
    if !cur < 0 || rnd_int st 4 = 0 then begin
      let db = rnd_pick st dbs in
      if db <> !cur then (add (USelect (Rdbgen.form st db, n_of_int db)); cur := db)
    end;
    if rnd_int st 15 = 0 then add (ULua (Rdbgen.form st 3, raw (Printf.sprintf "return %d" i)));
    let name = (match rnd_int st 8 with
      | 0 -> "ab" | 1 -> "user:" | 2 -> "tmp" | 3 -> "a" | 4 -> "redis-shake-checkpoint" | 5 -> "{t" ^ string_of_int (rnd_int st 4) ^ "}" | _ -> "k")
      ^ string_of_int i in
    names := name :: !names;
    if rnd_int st 6 = 0 then add (UExpMs (n_of_int (4000000000000 + rnd_int st 1000)));
    let v = match rnd_int st 4 with
      | 0 -> VSeq (n_of_int 1, Rdbgen.form st 2, [ raw "x"; raw (string_of_int i) ])
      | 1 -> VHash (Rdbgen.form st 1, [ (raw "f", raw (string_of_int i)) ])
      | _ -> VStr (N0, raw ("v" ^ string_of_int i)) in
    add (UKey (raw name, v))
  done;
  let units = List.rev !us in
  let some_slots () = List.sort_uniq compare (List.filteri (fun i _ -> i mod 3 = 0) (List.map (fun nm -> string_of_int (int_of_n (key_to_slot (bs nm)))) !names)) in
  let (dbblack, dbwhite) = match rnd_int st 4 with
    | 0 -> ([ string_of_int (rnd_pick st dbs) ], []) | 1 -> ([], [ string_of_int (rnd_pick st dbs); "1" ]) | _ -> ([], []) in
  let (keyblack, keywhite) = match rnd_int st 4 with
    | 0 -> ([ rnd_pick st prefixes ], []) | 1 -> ([], [ rnd_pick st prefixes; "k" ]) | _ -> ([], []) in
  { mode; parallel = rnd_pick st [ 1; 2; 4; 8; 32 ]; tdb = rnd_pick st [ -1; -1; 0; 2 ]; dbblack; dbwhite; keyblack; keywhite;
    slots = (if rnd_int st 4 = 0 then some_slots () else []); filterlua = rnd_int st 3 = 0; units;
    fail = (match rnd_int st 12 with 0 | 1 -> Some (List.nth !names (rnd_int st (List.length !names))) | 2 -> Some script_fail | _ -> None); cut = 0 }

let gen st tier =
  let n = if tier = "thorough" then 4000 else 300 in
  List.init n (fun i ->
    let c = gen_case st (if i mod 3 = 2 then "restore" else "sync") in
    (* one case in fifteen: the RDB stream stops somewhere before its end-of-file opcode *)
    if rnd_int st 15 = 0 then (let len = String.length (Rdbgen.image 9 c.units) in { c with fail = None; cut = 9 + rnd_int st (max 1 (len - 9 - 9)) }) else c)

let corpus = [
  (* F22 witness: restore mode, the target refuses one key *)
  { mode = "restore"; parallel = 2; tdb = -1; dbblack = []; dbwhite = []; keyblack = []; keywhite = []; slots = []; filterlua = false;
    units = [ UKey (raw "a", VStr (N0, raw "1")); UKey (raw "b", VStr (N0, raw "2")) ]; fail = Some "b"; cut = 0 };
  (* F17 witness: a lua record in a blacklisted database *)
  { mode = "sync"; parallel = 1; tdb = -1; dbblack = [ "0" ]; dbwhite = []; keyblack = []; keywhite = [ "zz" ]; slots = []; filterlua = false;
    units = [ ULua (L6, raw "return 1"); USelect (L6, n_of_int 1); UKey (raw "zz1", VStr (N0, raw "1")) ]; fail = None; cut = 0 };
  (* the target refuses the script: both modes must report it *)
  { mode = "sync"; parallel = 1; tdb = -1; dbblack = []; dbwhite = []; keyblack = []; keywhite = []; slots = []; filterlua = false;
    units = [ USelect (L6, n_of_int 0); UKey (raw "a", VStr (N0, raw "1")); ULua (L6, raw "return 1"); UKey (raw "b", VStr (N0, raw "2")) ]; fail = Some script_fail; cut = 0 };
  { mode = "restore"; parallel = 3; tdb = -1; dbblack = []; dbwhite = []; keyblack = []; keywhite = []; slots = []; filterlua = false;
    units = [ USelect (L6, n_of_int 0); UKey (raw "a", VStr (N0, raw "1")); ULua (L6, raw "return 1"); UKey (raw "b", VStr (N0, raw "2")) ]; fail = Some script_fail; cut = 0 };
  (* the RDB stream ends in the middle of the second key: the run must not be reported as a success *)
  { mode = "restore"; parallel = 2; tdb = -1; dbblack = []; dbwhite = []; keyblack = []; keywhite = []; slots = []; filterlua = false;
    units = [ USelect (L6, n_of_int 0); UKey (raw "a", VStr (N0, raw "1")); UKey (raw "bbbbbbbb", VStr (N0, raw "22222222")); UKey (raw "c", VStr (N0, raw "3")) ]; fail = None; cut = 22 };
  { mode = "sync"; parallel = 1; tdb = -1; dbblack = []; dbwhite = []; keyblack = []; keywhite = []; slots = []; filterlua = false;
    units = [ USelect (L6, n_of_int 0); UKey (raw "a", VStr (N0, raw "1")); UKey (raw "bbbbbbbb", VStr (N0, raw "22222222")); UKey (raw "c", VStr (N0, raw "3")) ]; fail = None; cut = 16 } ]

let hexl l = if l = [] then "-" else String.concat "," (List.map hex_of_string l)
let to_line c =
  Printf.sprintf "%s %d|%d|rewrite|%s|%s|%s|%s|%s|%d|1000000000 %s %s" c.mode c.parallel c.tdb (hexl c.dbblack) (hexl c.dbwhite) (hexl c.keyblack)
    (hexl c.keywhite) (hexl c.slots) (if c.filterlua then 1 else 0) (hex_of_string (let img = Rdbgen.image 9 c.units in if c.cut > 0 then String.sub img 0 (min c.cut (String.length img)) else img))
    (match c.fail with Some k -> hex_of_string k | None -> "-")
let show c =
  Printf.sprintf "%s, parallel=%d target.db=%d db.black=[%s] db.white=[%s] key.black=[%s] key.white=[%s] slots=[%s] filter.lua=%b%s; file: %s"
    c.mode c.parallel c.tdb (String.concat "," c.dbblack) (String.concat "," c.dbwhite) (String.concat "," c.keyblack) (String.concat "," c.keywhite)
    (String.concat "," c.slots) c.filterlua ((if c.cut > 0 then Printf.sprintf "; only the first %d bytes of the RDB arrive" c.cut else "") ^ match c.fail with Some k when k = script_fail -> "; the target refuses every SCRIPT LOAD" | Some k -> "; the target refuses RESTORE of " ^ k | None -> "")
    (let s = String.concat "; " (List.map Rdbgen.show_unit c.units) in if String.length s > 1500 then String.sub s 0 1500 ^ "..." else s)

let fcfg_of c = { key_black = List.map bs c.keyblack; key_white = List.map bs c.keywhite; db_black = List.map bs c.dbblack; db_white = List.map bs c.dbwhite;
                  slot_list = List.map bs c.slots; filter_lua = c.filterlua }
let wcfg_of c = { w_f = fcfg_of c; w_tdb = z_of_int c.tdb; w_full = (c.mode = "sync") }
let records c = records_of hash_chunk_limit meta0 c.units
let wents c = List.mapi (fun i (e : entry) -> (nat_of_int i, { we_db = z_of_int (int_of_n e.e_db); we_key = e.e_key; we_aux = (int_of_n e.e_type = 250) })) (records c)

let classify c =
  let dbs = List.sort_uniq compare (List.filter_map (function USelect (_, n) -> Some (int_of_n n) | _ -> None) c.units) in
  if List.length dbs < 2 || c.parallel < 2 then None else
  Some (Printf.sprintf "%s:p%d:%s%s%s%s" c.mode c.parallel (if c.tdb = -1 then "srcdb" else "tdb") (if c.dbblack <> [] || c.dbwhite <> [] then "+db" else "")
          (if c.keyblack <> [] || c.keywhite <> [] then "+key" else "") (if c.fail <> None then "+fail" else ""))

let fail kind sig_ model impl detail = Fail { kind; sig_; model; impl; detail }

let judge c obs =
  let impl = let s = String.concat " " obs in if String.length s > 2000 then String.sub s 0 2000 ^ "..." else s in
  let recs = Array.of_list (records c) in
  let es = wents c in
  let cfg = wcfg_of c in
  let exp = expected cfg es in       (* (index, db) *)
  let exp_keys = List.filter_map (fun (i, db) -> let e = recs.(int_of_nat i) in
      if int_of_z db < 0 then None else Some (int_of_z db, string_of_bytes e.e_key, fnv64 (string_of_bytes e.e_value))) exp in
  let exp_scripts = if c.filterlua then [] else
      List.sort compare (List.filter_map (fun (i, db) -> if int_of_z db < 0 then Some (string_of_bytes recs.(int_of_nat i).e_value) else None) exp) in
  let show_keys l = String.concat " " (List.map (fun (d, k, _) -> Printf.sprintf "db%d/%s" d k) l) in
  let expect = Printf.sprintf "%d keys: %s; %d scripts" (List.length exp_keys) (show_keys exp_keys) (List.length exp_scripts) in
  let aborted = Srcgen.field obs "abort" <> None || Srcgen.field obs "panic" <> None in
  let failing = match c.fail with
    | Some k when k = script_fail -> exp_scripts <> []
    | Some k -> List.exists (fun (_, k', _) -> k' = k) exp_keys | None -> false in
  if c.cut > 0 then begin
    (* a stream that stops before its end-of-file opcode: whatever was restored, the run must not end as a success *)
    if aborted || Srcgen.field obs "ret" = Some "err" then Agree
    else fail "oracle" (c.mode ^ ":truncated-rdb-reported-as-success") "the run reports that the RDB stream ended early" impl "the RDB stream stopped before its end-of-file opcode but the run finished as a success"
  end else
  if failing then begin
    (* the run must report the failure *)
    if aborted || Srcgen.field obs "ret" = Some "err" then Agree
    else fail "oracle" (c.mode ^ ":failure-not-reported") "the run reports the failed restore / script load" impl "a restore or script load failed on the target but the run finished as a success"
  end else if aborted then fail "oracle" (c.mode ^ ":abort") expect impl "the run aborted although no restore failed"
  else if Srcgen.field obs "ret" <> Some "ok" then fail "oracle" (c.mode ^ ":error") expect impl "the run reported an error although no restore failed"
  else begin
    let state = match Srcgen.field obs "state" with
      | None | Some "-" -> []
      | Some s -> List.map (fun e -> match String.split_on_char ':' e with
          | [ d; k; _kind; h ] -> (int_of_string d, (if k = "-" then "" else string_of_hex k), h) | _ -> failwith "state") (String.split_on_char ';' s) in
    let scripts = match Srcgen.field obs "scripts" with None | Some "-" -> [] | Some s -> List.sort compare (List.map string_of_hex (String.split_on_char ',' s)) in
    let norm l = List.sort compare l in
    if Srcgen.field obs "multi" <> Some "-" then fail "oracle" (c.mode ^ ":restored-twice") expect impl "a key was restored more than once"
    else if norm state <> norm exp_keys then begin
      let missing = List.filter (fun x -> not (List.mem x state)) exp_keys and extra = List.filter (fun x -> not (List.mem x exp_keys)) state in
      let is_lua_sig = false in ignore is_lua_sig;
      fail "oracle" (c.mode ^ (if missing <> [] && extra = [] then ":key-missing" else if missing = [] then ":key-extra" else ":wrong-db-or-value")) expect
        (Printf.sprintf "missing: %s; unexpected: %s" (show_keys missing) (show_keys extra))
        "the target does not hold exactly the non-filtered keys, each in its own database (or target.db)"
    end
    else if scripts <> exp_scripts then fail "oracle" (c.mode ^ ":scripts") expect impl "the lua scripts of the file were not loaded exactly when filter.lua is off"
    else begin
      (* replay the observed schedule through the model: connection -> sequence of key@db *)
      let per_conn = match Srcgen.field obs "w" with
        | None | Some "-" -> []
        | Some s -> List.map (fun cs -> match String.split_on_char '=' cs with
            | [ _; l ] -> List.map (fun kd -> match String.split_on_char '@' kd with [ k; d ] -> ((if k = "-" then "" else string_of_hex k), int_of_string d) | _ -> failwith "w") (String.split_on_char ',' l)
            | _ -> failwith "w") (String.split_on_char ';' s) in
      let nw = List.length per_conn in
      let idx_of_key = Hashtbl.create 64 in
      Array.iteri (fun i (e : entry) -> if int_of_n e.e_type <> 250 then Hashtbl.replace idx_of_key (string_of_bytes e.e_key) i) recs;
      let owner = Array.make (Array.length recs) nw in
      List.iteri (fun w l -> List.iter (fun (k, _) -> match Hashtbl.find_opt idx_of_key k with Some i -> owner.(i) <- w | None -> ()) l) per_conn;
      (* script loads leave no key: give each lua record to the dummy worker, compare key writes only *)
      let sched = List.map nat_of_int (Array.to_list owner) in
      let bad = ref None in
      List.iteri (fun w l ->
        let mw = List.filter_map (fun (i, db) -> if int_of_z db < 0 then None else Some (string_of_bytes recs.(int_of_nat i).e_key, int_of_z db))
                   (worker_writes cfg (nat_of_int w) sched es) in
        if mw <> l && !bad = None then
          bad := Some (Printf.sprintf "worker %d: model %s / observed %s" w (String.concat "," (List.map (fun (k, d) -> Printf.sprintf "%s@%d" k d) mw))
                         (String.concat "," (List.map (fun (k, d) -> Printf.sprintf "%s@%d" k d) l)))) per_conn;
      match !bad with
      | Some d -> fail "diff" "pool-model" d impl "the per-connection write sequence differs from the model under the observed schedule"
      | None -> Agree
    end
  end
