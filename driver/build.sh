#!/bin/sh
# build the OCaml driver from the extracted model (in _build/extract) + the hand-written glue
set -e
B=/verif/_build/driver
mkdir -p $B
cp /verif/_build/extract/model.ml /verif/_build/extract/model.mli $B/
cp /verif/driver/*.ml $B/
cd $B
MODS="glue.ml frame.ml rdbgen.ml valgen.ml incrgen.ml srcgen.ml $(ls c[0-9][0-9]*.ml | grep -v c06.ml | sort | tr '\n' ' ') c06.ml main.ml"
ocamlfind ocamlopt -O2 -w -a -package unix -linkpkg model.mli model.ml $MODS -o /verif/_build/bin/driver 2>&1 || \
ocamlfind ocamlopt -w -a -package unix -linkpkg model.mli model.ml $MODS -o /verif/_build/bin/driver
