#!/bin/bash
# runmutant.sh <seeded dir name> <property> [tier]: apply the seeded change to /repo, run the check, undo.
M=$1; P=$2; T=${3:-quick}
cd /repo && git status --short | grep -q . && { echo "/repo not clean"; exit 9; }
git -C /repo apply /verif/seeded/$M/patch.diff || exit 8
cd /verif && VERIF_EVIDENCE_SKIP=1 timeout 1500 ./check $P --tier $T > /tmp/mutrun.$M.$P.log 2>&1; rc=$?
git -C /repo checkout -- .
# regenerate the translator output from the restored tree (Gen/*.v are committed files)
/verif/_build/bin/goextract /repo/src /verif/coq/Gen >/dev/null 2>&1; /verif/_build/bin/goflow /repo/src /verif/coq/Gen/Flow.v >/dev/null 2>&1
echo "$M on $P: rc=$rc $(grep -c '^VIOLATION' /tmp/mutrun.$M.$P.log) violation line(s): $(grep '^VIOLATION' /tmp/mutrun.$M.$P.log | head -2 | tr '\n' ' ')"
