// goflow — static leg of C19.  Loads every package of the RedisShake module (go/packages,
// go/types), finds the secret fields (struct fields whose name contains "password" / "passwd"),
// and emits coq/Gen/Flow.v: a may-flow graph over
//
//	field nodes   (one per secret field)
//	type nodes    (every named or literal struct type that, through fields, pointers, slices,
//	               arrays, maps or channels, contains a secret field: formatting such a value
//	               reads the secret)
//	var nodes     (local variables / parameters assigned from a secret expression, per function)
//	sink nodes    (one per argument of a formatting / logging / serialising call)
//
// with edges field -> owning type, type -> containing type, type|field|var -> sink argument,
// secret expression -> variable; the sources, the sinks, a proposed closure certificate, and a
// table describing every node for the replay.  GetSafeOptions is the declassifier: its body
// and calls of it are cut (justified by C19_safe_options theorems).
package main

import (
	"fmt"
	"go/ast"
	"go/types"
	"os"
	"path/filepath"
	"regexp"
	"sort"
	"strings"

	"golang.org/x/tools/go/packages"
)

var secretName = regexp.MustCompile(`(?i)passw(or)?d`)

type graph struct {
	ids   map[string]int
	names []string
	edges map[[2]int]bool
	srcs  map[int]bool
	sinks map[int]bool
}

func (g *graph) node(name string) int {
	if id, ok := g.ids[name]; ok {
		return id
	}
	id := len(g.names) + 1
	g.ids[name] = id
	g.names = append(g.names, name)
	return id
}
func (g *graph) edge(a, b int) { g.edges[[2]int{a, b}] = true }

// secret fields reachable inside a type (by value, pointer, slice, array, map, chan)
type typeInfo struct {
	g     *graph
	memo  map[types.Type]int // 0 = no secret inside, >0 = node id
	stack map[types.Type]bool
}

func typeName(t types.Type) string {
	return types.TypeString(t, func(p *types.Package) string { return p.Path() })
}

func (ti *typeInfo) nodeOf(t types.Type) int {
	if id, ok := ti.memo[t]; ok {
		return id
	}
	if ti.stack[t] {
		return 0
	}
	ti.stack[t] = true
	defer delete(ti.stack, t)
	id := 0
	ensure := func() int {
		if id == 0 {
			id = ti.g.node("type " + typeName(t))
		}
		return id
	}
	switch u := t.(type) {
	case *types.Named:
		if inner := ti.nodeOf(u.Underlying()); inner != 0 {
			ti.g.edge(inner, ensure())
		}
	case *types.Pointer:
		if inner := ti.nodeOf(u.Elem()); inner != 0 {
			ti.g.edge(inner, ensure())
		}
	case *types.Slice:
		if inner := ti.nodeOf(u.Elem()); inner != 0 {
			ti.g.edge(inner, ensure())
		}
	case *types.Array:
		if inner := ti.nodeOf(u.Elem()); inner != 0 {
			ti.g.edge(inner, ensure())
		}
	case *types.Chan:
		if inner := ti.nodeOf(u.Elem()); inner != 0 {
			ti.g.edge(inner, ensure())
		}
	case *types.Map:
		for _, e := range []types.Type{u.Key(), u.Elem()} {
			if inner := ti.nodeOf(e); inner != 0 {
				ti.g.edge(inner, ensure())
			}
		}
	case *types.Struct:
		for i := 0; i < u.NumFields(); i++ {
			f := u.Field(i)
			if secretName.MatchString(f.Name()) && isStringy(f.Type()) {
				fid := ti.g.node(fieldNodeName(f))
				ti.g.srcs[fid] = true
				ti.g.edge(fid, ensure())
			} else if inner := ti.nodeOf(f.Type()); inner != 0 {
				ti.g.edge(inner, ensure())
			}
		}
	}
	ti.memo[t] = id
	return id
}

func isStringy(t types.Type) bool {
	switch u := t.Underlying().(type) {
	case *types.Basic:
		return u.Info()&types.IsString != 0
	case *types.Slice:
		if b, ok := u.Elem().Underlying().(*types.Basic); ok {
			return b.Kind() == types.Byte || b.Kind() == types.Uint8
		}
	}
	return false
}

func fieldNodeName(f *types.Var) string {
	pkg := ""
	if f.Pkg() != nil {
		pkg = f.Pkg().Path()
	}
	return fmt.Sprintf("field %s.%s", pkg, f.Name())
}

// is the call a sink?  logging, printing, formatting into strings/errors, JSON encoding
func sinkCallee(fn *types.Func) bool {
	if fn == nil || fn.Pkg() == nil {
		return false
	}
	p, n := fn.Pkg().Path(), fn.Name()
	switch {
	case strings.HasSuffix(p, "pkg/libs/log"):
		return ast.IsExported(n)
	case p == "fmt":
		return strings.HasPrefix(n, "Print") || strings.HasPrefix(n, "Fprint") || strings.HasPrefix(n, "Sprint") || n == "Errorf"
	case p == "log":
		return true
	case p == "encoding/json":
		return n == "Marshal" || n == "MarshalIndent" || n == "Encode"
	case strings.HasSuffix(p, "pkg/libs/errors") || p == "github.com/pkg/errors" || p == "errors":
		return n == "Errorf" || n == "New" || n == "Wrapf" || n == "Wrap" || n == "Trace"
	}
	return false
}

// string-like values are the ones tracked through variables, parameters and results
func tracked(t types.Type) bool { return isStringy(t) }

var varIDs = map[*types.Var]int{}

func varNode(g *graph, v *types.Var) int {
	if id, ok := varIDs[v]; ok {
		return id
	}
	pkg := ""
	if v.Pkg() != nil {
		pkg = v.Pkg().Path()
	}
	id := g.node(fmt.Sprintf("var %s %s#%d", pkg, v.Name(), len(varIDs)))
	varIDs[v] = id
	return id
}

// functions declared in the analysed packages
var moduleFuncs = map[*types.Func]bool{}

func main() {
	if len(os.Args) < 3 {
		fmt.Fprintln(os.Stderr, "usage: goflow <module dir> <out.v>")
		os.Exit(2)
	}
	dir, out := os.Args[1], os.Args[2]
	cfg := &packages.Config{Mode: packages.NeedName | packages.NeedFiles | packages.NeedSyntax | packages.NeedTypes | packages.NeedTypesInfo | packages.NeedImports | packages.NeedDeps,
		Dir: dir, Tests: false}
	pkgs, err := packages.Load(cfg, "./redis-shake/...", "./pkg/...")
	if err != nil {
		fmt.Fprintln(os.Stderr, "goflow: load:", err)
		os.Exit(1)
	}
	g := &graph{ids: map[string]int{}, edges: map[[2]int]bool{}, srcs: map[int]bool{}, sinks: map[int]bool{}}
	ti := &typeInfo{g: g, memo: map[types.Type]int{}, stack: map[types.Type]bool{}}
	var skipped []string
	nsinkcalls := 0
	sort.Slice(pkgs, func(i, j int) bool { return pkgs[i].PkgPath < pkgs[j].PkgPath })
	for _, pkg := range pkgs {
		if len(pkg.Errors) > 0 || pkg.TypesInfo == nil {
			continue
		}
		for _, file := range pkg.Syntax {
			for _, decl := range file.Decls {
				if fd, ok := decl.(*ast.FuncDecl); ok && fd.Body != nil && fd.Name.Name != "GetSafeOptions" {
					if fo, ok := pkg.TypesInfo.Defs[fd.Name].(*types.Func); ok {
						moduleFuncs[fo] = true
					}
				}
			}
		}
	}
	for _, pkg := range pkgs {
		if len(pkg.Errors) > 0 || pkg.TypesInfo == nil {
			skipped = append(skipped, pkg.PkgPath)
			continue
		}
		info := pkg.TypesInfo
		for _, file := range pkg.Syntax {
			fname := pkg.Fset.Position(file.Pos()).Filename
			rel, _ := filepath.Rel(dir, fname)
			if strings.HasSuffix(fname, "_test.go") || strings.Contains(fname, "zz_verif") {
				continue
			}
			for _, decl := range file.Decls {
				fd, ok := decl.(*ast.FuncDecl)
				if !ok || fd.Body == nil {
					continue
				}
				if fd.Name.Name == "GetSafeOptions" {
					continue // the declassifier
				}
				_ = pkg.PkgPath
				fnObj, _ := info.Defs[fd.Name].(*types.Func)
				var exprNodes func(e ast.Expr) []int
				exprNodes = func(e ast.Expr) []int {
					var ns []int
					ast.Inspect(e, func(n ast.Node) bool {
						switch x := n.(type) {
						case *ast.CallExpr:
							var callee *types.Func
							switch f := x.Fun.(type) {
							case *ast.SelectorExpr:
								callee, _ = info.Uses[f.Sel].(*types.Func)
							case *ast.Ident:
								callee, _ = info.Uses[f].(*types.Func)
								if f.Name == "len" || f.Name == "cap" {
									return false
								}
							}
							if callee != nil && callee.Name() == "GetSafeOptions" {
								return false // declassified
							}
							if callee != nil && moduleFuncs[callee] {
								// the result depends on what the callee returns, not on every argument
								sig := callee.Type().(*types.Signature)
								for i := 0; i < sig.Results().Len(); i++ {
									if tracked(sig.Results().At(i).Type()) {
										ns = append(ns, g.node(fmt.Sprintf("result %s %d", callee.FullName(), i)))
									}
								}
								return false
							}
						case *ast.SelectorExpr:
							if sel, ok := info.Selections[x]; ok && sel.Kind() == types.FieldVal {
								if f, ok := sel.Obj().(*types.Var); ok && secretName.MatchString(f.Name()) && isStringy(f.Type()) {
									id := g.node(fieldNodeName(f))
									g.srcs[id] = true
									ns = append(ns, id)
								}
							}
						case *ast.Ident:
							if obj := info.Uses[x]; obj != nil {
								if v, ok := obj.(*types.Var); ok && !v.IsField() && tracked(v.Type()) && v.Pkg() != nil {
									ns = append(ns, varNode(g, v))
								}
							}
						}
						return true
					})
					if tv, ok := info.Types[e]; ok && tv.Type != nil {
						if id := ti.nodeOf(tv.Type); id != 0 {
							ns = append(ns, id)
						}
					}
					return ns
				}
				// parameters named like a password are secrets of this function (callers pass them)
				if fd.Type.Params != nil {
					for _, fl := range fd.Type.Params.List {
						for _, nm := range fl.Names {
							if secretName.MatchString(nm.Name) {
								if obj, ok := info.Defs[nm].(*types.Var); ok && isStringy(obj.Type()) {
									g.srcs[varNode(g, obj)] = true
								}
							}
						}
					}
				}
				ast.Inspect(fd.Body, func(n ast.Node) bool {
					switch st := n.(type) {
					case *ast.AssignStmt:
						for i, lhs := range st.Lhs {
							id, ok := lhs.(*ast.Ident)
							if !ok {
								continue
							}
							obj := info.Defs[id]
							if obj == nil {
								obj = info.Uses[id]
							}
							v, ok := obj.(*types.Var)
							if !ok || !tracked(v.Type()) {
								continue
							}
							if len(st.Rhs) == len(st.Lhs) {
								for _, s := range exprNodes(st.Rhs[i]) {
									g.edge(s, varNode(g, v))
								}
							} else if call, ok := st.Rhs[0].(*ast.CallExpr); ok {
								// x, y := f(...): position i of the callee's results (module functions), everything otherwise
								var callee *types.Func
								switch f := call.Fun.(type) {
								case *ast.SelectorExpr:
									callee, _ = info.Uses[f.Sel].(*types.Func)
								case *ast.Ident:
									callee, _ = info.Uses[f].(*types.Func)
								}
								if callee != nil && moduleFuncs[callee] {
									g.edge(g.node(fmt.Sprintf("result %s %d", callee.FullName(), i)), varNode(g, v))
								} else {
									for _, s := range exprNodes(st.Rhs[0]) {
										g.edge(s, varNode(g, v))
									}
								}
							}
						}
					case *ast.ValueSpec:
						for i, nm := range st.Names {
							if v, ok := info.Defs[nm].(*types.Var); ok && tracked(v.Type()) && i < len(st.Values) {
								for _, s := range exprNodes(st.Values[i]) {
									g.edge(s, varNode(g, v))
								}
							}
						}
					case *ast.ReturnStmt:
						if fnObj != nil {
							for i, r := range st.Results {
								for _, s := range exprNodes(r) {
									g.edge(s, g.node(fmt.Sprintf("result %s %d", fnObj.FullName(), i)))
								}
							}
						}
					case *ast.CallExpr:
						var callee *types.Func
						switch f := st.Fun.(type) {
						case *ast.SelectorExpr:
							callee, _ = info.Uses[f.Sel].(*types.Func)
						case *ast.Ident:
							callee, _ = info.Uses[f].(*types.Func)
						}
						if callee != nil && moduleFuncs[callee] {
							sig := callee.Type().(*types.Signature)
							for i, a := range st.Args {
								if i < sig.Params().Len() && tracked(sig.Params().At(i).Type()) {
									for _, s := range exprNodes(a) {
										g.edge(s, varNode(g, sig.Params().At(i)))
									}
								}
							}
						}
					}
					return true
				})
				// sinks
				ast.Inspect(fd.Body, func(n ast.Node) bool {
					call, ok := n.(*ast.CallExpr)
					if !ok {
						return true
					}
					var fn *types.Func
					switch f := call.Fun.(type) {
					case *ast.SelectorExpr:
						fn, _ = info.Uses[f.Sel].(*types.Func)
					case *ast.Ident:
						fn, _ = info.Uses[f].(*types.Func)
					}
					if !sinkCallee(fn) {
						return true
					}
					nsinkcalls++
					pos := pkg.Fset.Position(call.Pos())
					for i, a := range call.Args {
						sid := g.node(fmt.Sprintf("sink %s:%d %s.%s arg %d", rel, pos.Line, fn.Pkg().Name(), fn.Name(), i))
						g.sinks[sid] = true
						for _, s := range exprNodes(a) {
							g.edge(s, sid)
						}
					}
					return true
				})
			}
		}
	}
	// closure certificate
	adj := map[int][]int{}
	for e := range g.edges {
		adj[e[0]] = append(adj[e[0]], e[1])
	}
	reach := map[int]bool{}
	parent := map[int]int{}
	var stack []int
	for s := range g.srcs {
		reach[s] = true
		stack = append(stack, s)
	}
	for len(stack) > 0 {
		x := stack[len(stack)-1]
		stack = stack[:len(stack)-1]
		for _, y := range adj[x] {
			if !reach[y] {
				reach[y] = true
				parent[y] = x
				stack = append(stack, y)
			}
		}
	}
	var b strings.Builder
	b.WriteString("(* Gen/Flow.v — GENERATED by tools/goflow from /repo/src; do not edit. *)\nFrom Coq Require Import List PArith String.\nImport ListNotations.\nOpen Scope positive_scope.\n\n")
	fmt.Fprintf(&b, "(* %d packages analysed, %d skipped (do not type-check): %s; %d sink calls *)\n", len(pkgs)-len(skipped), len(skipped), strings.Join(skipped, " "), nsinkcalls)
	var es [][2]int
	for e := range g.edges {
		es = append(es, e)
	}
	sort.Slice(es, func(i, j int) bool { return es[i][0] < es[j][0] || (es[i][0] == es[j][0] && es[i][1] < es[j][1]) })
	b.WriteString("Definition flow_edges : list (positive * positive) := [\n")
	for i, e := range es {
		sep := ";"
		if i == len(es)-1 {
			sep = ""
		}
		fmt.Fprintf(&b, "  (%d, %d)%s\n", e[0], e[1], sep)
	}
	b.WriteString("].\n")
	lst := func(name string, m map[int]bool) {
		var ks []int
		for k := range m {
			ks = append(ks, k)
		}
		sort.Ints(ks)
		var ss []string
		for _, k := range ks {
			ss = append(ss, fmt.Sprint(k))
		}
		fmt.Fprintf(&b, "Definition %s : list positive := [%s].\n", name, strings.Join(ss, "; "))
	}
	lst("flow_sources", g.srcs)
	lst("flow_sinks", g.sinks)
	lst("flow_certificate", reach)
	b.WriteString("Open Scope string_scope.\nDefinition flow_names : list (positive * string) := [\n")
	for i, n := range g.names {
		sep := ";"
		if i == len(g.names)-1 {
			sep = ""
		}
		// only nodes that matter for a replay: sources, reachable nodes
		fmt.Fprintf(&b, "  (%d%%positive, \"%s\")%s\n", i+1, strings.ReplaceAll(n, "\"", "'"), sep)
	}
	b.WriteString("].\n")
	old, _ := os.ReadFile(out)
	if string(old) != b.String() {
		os.WriteFile(out, []byte(b.String()), 0o644)
	}
	// leaks, for the replay search
	for s := range g.sinks {
		if reach[s] {
			path := g.names[s-1]
			for x := s; parent[x] != 0; x = parent[x] {
				path = g.names[parent[x]-1] + " -> " + path
			}
			fmt.Printf("LEAK %s\n", path)
		}
	}
}
