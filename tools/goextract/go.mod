module goextract

go 1.23
