package main

import (
	"bytes"
	"fmt"
	"go/ast"
)

func init() { extraGens = append(extraGens, genSupervisor) }

// slotsupervisor.New: maxRetries: <n>
func genSupervisor() {
	var b bytes.Buffer
	b.WriteString(header)
	f, _ := parseFile("redis-shake/dbSync/slotsupervisor/supervisor.go")
	found := ""
	if fd := findFunc(f, "New"); fd != nil {
		ast.Inspect(fd, func(n ast.Node) bool {
			if kv, ok := n.(*ast.KeyValueExpr); ok {
				if id, ok := kv.Key.(*ast.Ident); ok && id.Name == "maxRetries" {
					if s, ok := intLit(kv.Value); ok {
						found = s
					}
				}
			}
			return true
		})
	}
	if found == "" {
		failed = true
		found = "0"
	}
	fmt.Fprintf(&b, "Definition max_retries : nat := %s.\n", found)
	writeIfChanged("Supervisor.v", b.String())
}
