package main

import (
	"bytes"
	"fmt"
	"go/ast"
	"go/token"
)

func init() { extraGens = append(extraGens, genResp) }

// pkg/redis/encoder.go: imap = make([]string, LEN); imap[i] = strconv.Itoa(i - B1);
// itos: n := i + B2.   pkg/redis/resp.go: the five type bytes.
func genResp() {
	var b bytes.Buffer
	b.WriteString(header)
	f, _ := parseFile("pkg/redis/encoder.go")
	lenS, b1, b2 := "", "", ""
	if fd := findFunc(f, "init"); fd != nil {
		ast.Inspect(fd, func(n ast.Node) bool {
			switch x := n.(type) {
			case *ast.CallExpr:
				if id, ok := x.Fun.(*ast.Ident); ok && id.Name == "make" && len(x.Args) == 2 {
					if s, ok := intLit(x.Args[1]); ok {
						lenS = s
					}
				}
			case *ast.BinaryExpr:
				if id, ok := x.X.(*ast.Ident); ok && id.Name == "i" && x.Op == token.SUB {
					if s, ok := intLit(x.Y); ok {
						b1 = s
					}
				}
			}
			return true
		})
	}
	if fd := findFunc(f, "itos"); fd != nil {
		ast.Inspect(fd, func(n ast.Node) bool {
			if x, ok := n.(*ast.BinaryExpr); ok && x.Op == token.ADD {
				if id, ok := x.X.(*ast.Ident); ok && id.Name == "i" {
					if s, ok := intLit(x.Y); ok {
						b2 = s
					}
				}
			}
			return true
		})
	}
	if lenS == "" || b1 == "" || b2 == "" {
		fmt.Fprintln(&b, "(* imap constants not found *)")
		failed = true
	}
	fmt.Fprintf(&b, "Definition imap_len_gen : Z := %s%%Z.\nDefinition imap_bias_init : Z := %s%%Z.\nDefinition imap_bias_itos : Z := %s%%Z.\n", lenS, b1, b2)
	f2, _ := parseFile("pkg/redis/resp.go")
	for _, c := range []struct{ v, name string }{{"typeString", "type_string"}, {"typeError", "type_error"}, {"typeInt", "type_int"},
		{"typeBulkBytes", "type_bulk"}, {"typeArray", "type_array"}} {
		if s, ok := intLit(findVar(f2, c.v)); ok {
			fmt.Fprintf(&b, "Definition %s : N := %s%%N.\n", c.name, s)
		} else {
			failed = true
		}
	}
	writeIfChanged("Resp.v", b.String())
}
