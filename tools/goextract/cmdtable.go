package main

import (
	"bytes"
	"fmt"
	"go/ast"
	"sort"
)

func init() { extraGens = append(extraGens, genCmdTable) }

// filter/redis_command.go: RedisCommands map literal  "name": {nil, first, last, step}
func genCmdTable() {
	var b bytes.Buffer
	b.WriteString(header)
	f, _ := parseFile("redis-shake/filter/redis_command.go")
	cl, ok := findVar(f, "RedisCommands").(*ast.CompositeLit)
	if !ok {
		failed = true
		return
	}
	type row struct{ name, f, l, s string }
	var rows []row
	for _, el := range cl.Elts {
		kv, ok := el.(*ast.KeyValueExpr)
		if !ok {
			failed = true
			continue
		}
		name, ok1 := strLit(kv.Key)
		v, ok2 := kv.Value.(*ast.CompositeLit)
		if !ok1 || !ok2 || len(v.Elts) != 4 {
			failed = true
			continue
		}
		if id, isId := v.Elts[0].(*ast.Ident); !isId || id.Name != "nil" {
			fmt.Fprintf(&b, "(* %s has a getkeys procedure: not modelled *)\n", name)
			failed = true
		}
		x, o1 := sintLit(v.Elts[1])
		y, o2 := sintLit(v.Elts[2])
		z, o3 := sintLit(v.Elts[3])
		if !(o1 && o2 && o3) {
			failed = true
			continue
		}
		rows = append(rows, row{name, x, y, z})
	}
	sort.Slice(rows, func(i, j int) bool { return rows[i].name < rows[j].name })
	b.WriteString("Definition cmd_table : list (list byte * (Z * Z * Z)) := [\n")
	for i, r := range rows {
		sep := ";"
		if i == len(rows)-1 {
			sep = ""
		}
		fmt.Fprintf(&b, "  (%s, (%s, %s, %s)%%Z)%s (* %s *)\n", coqBytes(r.name), r.f, r.l, r.s, sep, r.name)
	}
	b.WriteString("].\n")
	writeIfChanged("CmdTable.v", b.String())
}
