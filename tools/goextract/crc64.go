package main

import (
	"bytes"
	"fmt"
	"path/filepath"
)

func init() { extraGens = append(extraGens, genCrc64) }

func genCrc64() {
	var b bytes.Buffer
	b.WriteString(header)
	ext := modCachePath("github.com/cupcake/rdb")
	for _, t := range []struct{ rel, v, name string }{
		{"pkg/rdb/digest/crc64.go", "crc64_table", "digest_crc64tab"},
		{"pkg/libs/cupcake/rdb/crc64/crc64.go", "table", "cupcake_crc64tab"},
		{filepath.Join(ext, "crc64/crc64.go"), "table", "ext_crc64tab"},
	} {
		xs, ok := tableN(t.rel, t.v)
		if !ok {
			failed = true
		}
		b.WriteString(coqListN(t.name, xs))
		b.WriteString("\n")
	}
	type cst struct{ rel, v, name string }
	for _, c := range []cst{
		{"pkg/rdb/reader.go", "ToVersion", "to_version"},
		{"pkg/rdb/reader.go", "FromVersion", "from_version"},
		{"pkg/libs/cupcake/rdb/encoder.go", "Version", "cupcake_version"},
		{"redis-shake/common/common.go", "RDBVersion", "rdb_version"},
	} {
		f, _ := parseFile(c.rel)
		if s, ok := intLit(findVar(f, c.v)); ok {
			fmt.Fprintf(&b, "Definition %s : N := %s%%N.\n", c.name, s)
		} else {
			fmt.Fprintf(&b, "(* %s: not found *)\n", c.name)
			failed = true
		}
	}
	writeIfChanged("Crc64.v", b.String())
}
