package main

import (
	"bytes"
	"fmt"
	"go/ast"
	"go/token"
	"strings"
)

func init() { extraGens = append(extraGens, genConfig) }

// configure.go: the field names of Configuration and the fields GetSafeOptions overwrites with "***"
func genConfig() {
	var b bytes.Buffer
	b.WriteString(header)
	b.WriteString("From Coq Require Import String.\nOpen Scope string_scope.\n")
	f, _ := parseFile("redis-shake/configure/configure.go")
	var fields []string
	if f != nil {
		ast.Inspect(f, func(n ast.Node) bool {
			ts, ok := n.(*ast.TypeSpec)
			if !ok || ts.Name.Name != "Configuration" {
				return true
			}
			if st, ok := ts.Type.(*ast.StructType); ok {
				for _, fl := range st.Fields.List {
					for _, nm := range fl.Names {
						fields = append(fields, nm.Name)
					}
				}
			}
			return false
		})
	}
	var masked []string
	shape := true
	if fd := findFunc(f, "GetSafeOptions"); fd != nil && fd.Body != nil {
		stmts := fd.Body.List
		// polish := Options ; polish.X = "***" ... ; return polish
		if len(stmts) < 2 {
			shape = false
		}
		for i, st := range stmts {
			switch s := st.(type) {
			case *ast.AssignStmt:
				if i == 0 {
					id, ok1 := s.Lhs[0].(*ast.Ident)
					rhs, ok2 := s.Rhs[0].(*ast.Ident)
					if !(s.Tok == token.DEFINE && ok1 && ok2 && id.Name == "polish" && rhs.Name == "Options") {
						shape = false
					}
					continue
				}
				sel, ok1 := s.Lhs[0].(*ast.SelectorExpr)
				lit, ok2 := s.Rhs[0].(*ast.BasicLit)
				if ok1 && ok2 && lit.Value == `"***"` {
					if x, ok := sel.X.(*ast.Ident); ok && x.Name == "polish" {
						masked = append(masked, sel.Sel.Name)
						continue
					}
				}
				shape = false
			case *ast.ReturnStmt:
				if id, ok := s.Results[0].(*ast.Ident); !ok || id.Name != "polish" || i != len(stmts)-1 {
					shape = false
				}
			default:
				shape = false
			}
		}
	} else {
		shape = false
	}
	if len(fields) == 0 {
		failed = true
	}
	q := func(l []string) string {
		var s []string
		for _, x := range l {
			s = append(s, `"`+x+`"`)
		}
		return strings.Join(s, "; ")
	}
	fmt.Fprintf(&b, "Definition config_fields : list string := [%s].\n", q(fields))
	fmt.Fprintf(&b, "Definition masked_fields : list string := [%s].\n", q(masked))
	fmt.Fprintf(&b, "(* GetSafeOptions is `polish := Options; polish.F = \"***\" ...; return polish` *)\nDefinition safe_options_shape_ok : bool := %v.\n", shape)
	writeIfChanged("Config.v", b.String())
}
