package main

import (
	"bytes"
	"fmt"
	"go/ast"
	"go/token"
)

func init() { extraGens = append(extraGens, genRdb) }

// pkg/rdb/reader.go: the hash chunk limit `b.Len() > 16*1024*1024` and the type / opcode constants
func genRdb() {
	var b bytes.Buffer
	b.WriteString(header)
	f, _ := parseFile("pkg/rdb/reader.go")
	limit := ""
	if fd := findFunc(f, "readObjectValue"); fd != nil {
		ast.Inspect(fd, func(n ast.Node) bool {
			if be, ok := n.(*ast.BinaryExpr); ok && be.Op == token.GTR {
				if call, ok := be.X.(*ast.CallExpr); ok {
					if sel, ok := call.Fun.(*ast.SelectorExpr); ok && sel.Sel.Name == "Len" {
						if s, ok := intLit(be.Y); ok {
							limit = s
						}
					}
				}
			}
			return true
		})
	}
	if limit == "" {
		failed = true
		limit = "0"
	}
	fmt.Fprintf(&b, "Definition hash_chunk_limit : N := %s%%N.\n", limit)
	for _, c := range []struct{ v, name string }{
		{"RdbTypeString", "t_string"}, {"RdbTypeList", "t_list"}, {"RdbTypeSet", "t_set"}, {"RdbTypeZSet", "t_zset"},
		{"RdbTypeHash", "t_hash"}, {"RdbTypeZSet2", "t_zset2"}, {"RdbTypeHashZipmap", "t_zipmap"}, {"RdbTypeListZiplist", "t_list_ziplist"},
		{"RdbTypeSetIntset", "t_intset"}, {"RdbTypeZSetZiplist", "t_zset_ziplist"}, {"RdbTypeHashZiplist", "t_hash_ziplist"},
		{"RdbTypeQuicklist", "t_quicklist"}, {"RDBTypeStreamListPacks", "t_stream"},
		{"rdbFlagModuleAux", "op_module_aux"}, {"rdbFlagIdle", "op_idle"}, {"rdbFlagFreq", "op_freq"}, {"RdbFlagAUX", "op_aux"},
		{"rdbFlagResizeDB", "op_resize"}, {"rdbFlagExpiryMS", "op_expire_ms"}, {"rdbFlagExpiry", "op_expire"},
		{"rdbFlagSelectDB", "op_select"}, {"rdbFlagEOF", "op_eof"},
	} {
		if s, ok := intLit(findVar(f, c.v)); ok {
			fmt.Fprintf(&b, "Definition %s : N := %s%%N.\n", c.name, s)
		} else {
			fmt.Fprintf(&b, "(* %s not found *)\n", c.v)
			failed = true
		}
	}
	writeIfChanged("Rdb.v", b.String())
}
