#!/bin/sh
# regenerate coq/_CoqProject file list (all .v files except Extract/) and the Makefile
cd /verif/coq || exit 1
{ echo "-Q . RS"; echo "-arg -w -arg -abstract-large-number,-notation-overridden"; find Base Gen Spec Model Proofs Props -name '*.v' | sort; } > _CoqProject.new
if ! cmp -s _CoqProject.new _CoqProject; then mv _CoqProject.new _CoqProject; coq_makefile -f _CoqProject -o Makefile >/dev/null; else rm _CoqProject.new; [ -f Makefile ] || coq_makefile -f _CoqProject -o Makefile >/dev/null; fi
