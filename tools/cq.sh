#!/bin/sh
# compile one Coq file with a time limit and ALWAYS print the exit status
cd /verif/coq && timeout ${2:-300} coqc -Q . RS -w -abstract-large-number,-notation-overridden "$1" 2>&1 | grep -v "^Closed under" | tail -${3:-15}; echo "exit=${PIPESTATUS:-?}"
