#!/usr/bin/env python3
"""Regenerates /verif/MANIFEST.json from the table below (one entry per property that has a check)."""
import json, os, subprocess
V = os.path.dirname(os.path.dirname(os.path.abspath(__file__)))
CLAIMED = {
 "C15": dict(
   text="Theorems in coq/Props/C15.v (Coq 8.16.1, closed, no axioms): both CRC16 tables regenerated from the Go source equal the CRC-16/XMODEM table computed in Coq; the model of KeyToSlot equals the Redis Cluster hash-slot specification for every byte string; for every range 0<=l<=r<=16383 the model of ChoseSlotInRange returns a checkpoint key hashing inside the range (checked witness table for all 16384 slots) and the latency-key search terminates inside the range. The hand-written models are tied to /repo by a differential run (KeyToSlot, both crc16 copies, ChoseSlotInRange, findKeyInRange on exhaustive brace layouts, random keys and ranges).",
   note="Trusted: Coq kernel + vm_compute; goextract (table/constant translator); extraction (ExtrOcamlBasic) and OCaml driver; the external redis-go-cluster GetSlot is modelled as the specification and only checked by the differential run. Modelled not verified: the Go function bodies (tied by sampling). The 'excluded by the key filter' clause is proved in C06's filter model.",
   technique="Coq proof (induction + checked witness tables) + regenerated tables + differential correspondence run",
   design="DESIGN.md section 5, C15"),
}
CLAIMED["C11"] = dict(
   text="Theorems in coq/Props/C11.v (closed, no axioms): the three CRC-64 tables regenerated from the sources (in-repo digest, vendored and external cupcake) equal the Jones table computed in Coq from the polynomial; the digest of a concatenation equals the fold of chunked writes (any chunking); ANY single-byte substitution at any position of data of any length changes the CRC-64 (state-injectivity + byte-sensitivity of the table step); hence the end-of-file check accepts body++LE64(crc body) and rejects every one-byte substitution in body or trailer; createValueDump's payload verifies under verifyDump and CheckVersionChecksum, and a payload altered in any byte, carrying a version above the supported one (with a matching CRC) or shorter than 10 bytes is rejected by both. Differential run: three Go digests on random data x chunkings, createValueDump, both checkers on payloads of every version class, exhaustive single-byte substitution sweeps (every position x 255 values) and truncations of generated payloads and RDB images through the real Loader.",
   note="Trusted: Coq kernel + vm_compute; goextract (tables, version constants; the external cupcake table is read from the module cache); extraction + OCaml driver. The theorem about the RDB footer is stated for a fixed parse extent (covered bytes ++ 8 trailer bytes); a substitution that makes the parser stop earlier (a byte turned into the EOF opcode) is only covered by the sweep, where acceptance would need a 2^-64 coincidence. RDB sweeps skip replacement values 0x80/0x81/0xc3 (they make the parser allocate GiB buffers).",
   technique="Coq proof (CRC state-injectivity, induction over bytes) + regenerated tables + differential run with exhaustive substitution sweeps",
   design="DESIGN.md section 5, C11")
CLAIMED["C10"] = dict(
   text="Theorems in coq/Props/C10.v (closed, no axioms), over a Gallina model of encoder.go/decoder.go: decode(encode v ++ rest) = (v, rest, offset + |encode v|) for every well-formed value tree at any depth (nil vs empty distinguished, int64 range, arbitrary binary bulks); for ANY input whatsoever a returned value consumed exactly a prefix of the input and the running offset grew by exactly that many bytes (keep-alive newlines and inline lines included); inline lines decode to their space-separated tokens; itos = decimal rendering (table constants regenerated from the source); every strict prefix of an encoding is rejected; missing CR, lengths < -1, non-numeric lengths and unknown type bytes inside arrays are errors. Differential run: Go encoder vs model encoder, Go decoder (through bufio sizes 16..4096 and 1..n-byte readers) vs model decoder on streams of values/inline lines/keep-alives, ALL truncations and single-point corruptions (9 replacement bytes per position) of a set of encodings.",
   note="Trusted: Coq kernel; Dec.render/parse_int on stdlib Decimal stand for strconv.FormatInt/ParseInt (int64 range check modelled explicitly); bufio.Reader is trusted stdlib; declared lengths above 10^6 are not generated (make() would exhaust memory: abort, not a value). Model tied to the code by the differential run (sampling).",
   technique="Coq proof (nested induction on value trees / fuel) + differential correspondence run with exhaustive truncations",
   design="DESIGN.md section 5, C10")
CLAIMED["C13"] = dict(
   text="Theorems in coq/Props/C13.v (closed, no axioms): for every row (firstkey,lastkey,keystep) with firstkey>=1, keystep>0 and every argument vector of a valid arity - written as leading args ++ key groups ++ trailing options, any number and content of groups - the model of getMatchKeys returns leading args ++ exactly the groups whose key passes, in the original order, ++ trailing options, and reports 'dropped' iff no key passes (induction over the group list); every row of the command table regenerated from redis_command.go satisfies the side conditions; HandleFilterKeyWithCommand returns the command unchanged without a key filter or for commands outside the table. Differential run: every table command x its argument shapes x ALL pass/reject assignments x whitelist/blacklist through the real filter.HandleFilterKeyWithCommand.",
   note="Trusted: Coq kernel; goextract (command table translator); extraction + OCaml driver. 'Valid arity' is the visible hypothesis of the theorem (the Go code panics on a malformed arity; not generated). Commands with a getkeys procedure are commented out in the table and therefore pass unfiltered by design (documented, not claimed). The path through the incremental parser is exercised by C03.",
   technique="Coq proof (induction over key groups) + regenerated command table + exhaustive differential run over assignments",
   design="DESIGN.md section 5, C13")
CLAIMED["C18"] = dict(
   text="Theorems in coq/Props/C18.v (closed, no axioms) over a Gallina model of backlog.go/buff.go/file.go (ring of [size] cells addressed by absolute write position): for EVERY capacity, every sequence of writes of any sizes (any number of wrap-arounds) and every read request, with log = all bytes written: a read returns exactly the log's bytes at that offset onward (never other bytes), waits iff the offset equals the write position, fails with invalid-offset iff the offset is beyond the writer or more than one capacity behind it; one Write appends all its bytes and never blocks; DataRange = the most recent min(total, capacity) bytes; a reader is valid iff its position is inside that range; after Close every read fails (refinement ring -> infinite log + window, invariant by induction over the writes). Differential run: op sequences (Write/ReadAt/Reader.Read/SeekTo/IsValid/DataRange/Close, parked reads issued on goroutines and woken by later writes/close) on memory (4096/8192) and file (4 MiB) backlogs vs the extracted ring model, plus an independent log-based oracle.",
   note="Trusted: Coq kernel; extraction + OCaml driver; sync.Mutex/sync.Cond and os.File ReadAt/WriteAt/Truncate are runtime (the model serialises every operation under the mutex; a parked read is re-evaluated after each broadcast). 64-bit position overflow not modelled (positions are unbounded N). Writes larger than the capacity while a reader is parked are not generated (outcome depends on scheduling between write chunks).",
   technique="Coq proof (refinement to an infinite log, invariant by induction over writes) + differential run on op sequences",
   design="DESIGN.md section 5, C18")
CLAIMED["C09"] = dict(
   text="Theorems in coq/Props/C09.v (closed, no axioms) over a Gallina machine whose events are the atomic sections of pipe.go (readSome, writeSome, RClose, WClose, Buffered, Available; sync.Cond Signal wakes a parked thread, is lost otherwise): for EVERY capacity and EVERY event list (every interleaving of one reader, one writer and the closes, every chunking, wrap-around included) the bytes delivered to the reader followed by the buffered bytes equal the bytes accepted from the writer (FIFO refinement of the ring, reset-on-drain included); a reader is parked only while the buffer is empty and a writer only while it is full and nobody closed (no lost wake-up: invariant), never both parked (deadlock freedom); a non-parked side always takes its step; after the writer closes reads drain the buffer and then return the writer's error (EOF by default); after the reader closes reads return closed-pipe, writes and Buffered the reader's error, and nobody parks. Differential run: op sequences on memory (4096/8192) and file (4 MiB) pipes, operations predicted to park issued on goroutines and released by the other side or a close, vs the extracted machine under the eager schedule, plus an independent FIFO/deadlock oracle.",
   note="Trusted: Coq kernel; extraction + OCaml driver; sync.Mutex/sync.Cond semantics and os.File ReadAt/WriteAt/Truncate are runtime (represented as atomic events); one reader goroutine and one writer goroutine (the rl/wl locks that serialise further callers are not modelled); positions are unbounded N (no 2^64 overflow). Real runs sample the interleavings (eager schedule); the theorems cover all of them.",
   technique="Coq proof (invariant over an event machine, refinement to a FIFO queue) + differential run on op sequences with parked operations",
   design="DESIGN.md section 5, C09")
CLAIMED["C20"] = dict(
   text="Theorems in coq/Props/C20.v (closed, no axioms) over a Gallina model of supervisor.go with the probe (connect + INFO replication) as an oracle function round -> node -> outcome, so that every topology, failure sequence and node ordering is covered: if a node is returned it reported the master role in the round that succeeded and no node reported it in any earlier round, and source + slaves are a permutation of the known nodes; failure is returned only if no node reported master in any of the maxRetries+1 rounds, and conversely a master within the budget is always found; unreachable nodes, command errors and replies without a role line are never chosen; the retry budget regenerated from the source is 6. Differential run: random topologies/failure scripts/orderings through the real GetSlotState with an injected connection factory (real back-off sleeps) vs the extracted model and an independent oracle.",
   note="Trusted: Coq kernel; goextract (maxRetries constant); extraction + OCaml driver; the harness' fake redigo.Conn. The regular expressions ^role:master / ^role:slave are modelled as prefix tests on the lines of strings.Split(reply, \"\\n\"). Quick tier uses retry budgets 0..2 (sleeps 2+1 s), thorough up to 6 (21 s).",
   technique="Coq proof (induction over the node list and the retry depth, probe as oracle) + differential run with injected factory",
   design="DESIGN.md section 5, C20")
CLAIMED["C14"] = dict(
   text="Theorems in coq/Props/C14.v (closed, no axioms) over a Gallina model of LoadCheckpoint/fetchCheckpoint/ClearCheckpoint: the loader's result is the version gate and the '?' rule around a scan that returns the greatest offset recorded for its own source together with the run id, database and version stored next to it (offset -1 when none); the scan result is invariant under every permutation of the database list (Go map order) when the source's offsets are pairwise distinct; fields of other sources - including addresses that extend ours - do not influence the result; stale runid/offset fields of the source are removed in every database except the one resumed from and nothing else is touched; whatever the sender stores (HSET of runid, version, offset on a hash with unique fields) is read back unchanged. Differential run: target states built from random sender-style writes of 1..3 sources (prefix addresses), partial/cleared checkpoints, version variants, loaded 3x by the real LoadCheckpoint over TCP from fakeredis; result and post-state vs the extracted model plus an independent oracle.",
   note="Trusted: Coq kernel; extraction + OCaml driver; fakeredis (INFO keyspace/SELECT/EXISTS/HGETALL/HDEL) and redigo. 'Pairwise distinct own offsets' is the visible hypothesis of the order-independence theorem (an invariant of the sender: offsets of successive groups strictly increase, C04). utils.ParseKeyspace is exercised by the run but not modelled beyond 'databases with keys are listed'.",
   technique="Coq proof (argmax scan, permutation invariance, assoc-list lemmas) + differential run over TCP against fakeredis",
   design="DESIGN.md section 5, C14")
CLAIMED["C01"] = dict(
   text="Theorem C01_parse_exact in coq/Props/C01.v (closed, no axioms): for every RDB file of version 1..9 produced by the Coq spec encoder from an abstract syntax (any sequence of select-db / expiry s,ms / idle / freq / aux / lua / resize-db / module-aux with every sub-opcode / key units; every value type the loader accepts incl. opaque zipmap/ziplist/intset blobs, quicklists, text- and binary-score sorted sets, streams with groups, PELs and consumers; every string encoding incl. int8/16/32 and LZF; every length form, canonical or wider, the 64-bit form at discard positions) the model of Header/NextBinEntry*/Footer returns exactly the records defined from the syntax tree alone - file order, db, logical key, type, expiry in ms, idle/freq bound to the right key, value = byte-exact serialized value wrapped by createValueDump - and the checksum verifies; payloads verify under both DUMP checkers (C11). Proved by induction over the unit list with one exactness lemma per syntactic form (parser-combinator discipline 'consumes exactly its encoding, whatever follows'). Hypothesis visible in the statement: hashes stay below the 16 MiB chunk limit (the split case is specified by records_of/chunks and modelled, but not proved; it is exercised only by the thorough tier). Differential run: 1200 generated files of all types/encodings read by the real Loader through readers of 1..4096-byte pieces, plus truncated/corrupted images, vs the extracted model and records_of.",
   note="Trusted: Coq kernel; goextract (chunk limit, type/opcode constants, FromVersion); extraction + OCaml driver; io.TeeReader/bytes.Buffer/io.ReadFull. strconv.ParseFloat is modelled as a syntactic check of decimal floats (float_ok; hexadecimal floats and the range error are not modelled: Redis writes %.17g of finite doubles). Module value types 6/7 are rejected by the code and are outside the property. PARTIAL: split hashes (> 16 MiB) are not covered by the theorem.",
   technique="Coq proof (exactness of parser combinators, induction over the file syntax) + regenerated constants + differential run on generated files",
   design="DESIGN.md section 5, C01")
CLAIMED["C12"] = dict(
   text="Theorems in coq/Props/C12.v (closed, no axioms): DecodeDump(EncodeDump v) = v for every string, list, set, hash and sorted set (same elements, same order; arbitrary bytes; integer-looking strings take the int8/16/32 form only when the decimal rendering is exact; lengths in the 6/14/32-bit forms; scores as IEEE bits through the text conversion under one stated law, NaN canonicalised, +-inf by their codes) - proved by exactness of the decoder on the encoder's output; the tool's decoder returns the logical element for every ziplist entry form Redis writes (6/14/32-bit strings, int16/32/64/24/8, immediates, 1-/5-byte prevlen), for whole ziplists and for intsets of 16/32/64 bits, as generated by Coq spec encoders of those formats. Zipmap deviations (items >= 253 bytes, >= 254 entries) are recorded findings with computed witnesses. Differential run: 1500 logical values through rdb.EncodeDump/DecodeDump (payload bytes and result), 1200 compact encodings (ziplist list/hash/zset, intset, zipmap, quicklist, zset2, raw or LZF-wrapped) through DecodeDump, 200 object sequences through rdb.NewEncoder + Loader + ObjEntry, vs the extracted model and the original values.",
   note="Trusted: Coq kernel; extraction + OCaml driver (which supplies Printf %.17g / float_of_string as the two float conversions; their agreement with Go's strconv on every generated score is checked by the byte-level comparison of payloads); goextract; the external github.com/cupcake/rdb encoder is third-party code outside /repo (modelled, exercised, not mutable). PARTIAL: the whole-file round trip is decided by C01's theorem (parser exact on every spec-encoded file) plus the differential run on the tool's own writer; the equation 'writer output = spec encoding' is not proved. ziplists announcing 65535 entries (zllen unknown) are excluded by hypothesis.",
   technique="Coq proof (encoder/decoder exactness, per-format lemmas) + differential run on values, compact encodings and files",
   design="DESIGN.md section 5, C12")
NOT_YET = {}
props = [json.loads(l) for l in open(os.path.join(V, "properties.jsonl"))]
hooks = subprocess.run(["git", "-C", "/repo", "log", "--format=%H %s"], capture_output=True, text=True).stdout.strip().split("\n")
hook_commits = [l.split()[0] for l in hooks if " verif hooks" in l or l.split(" ", 1)[1].startswith("verif hook")]
checks = []
na = []
for p in props:
    pid = p["id"]
    if pid in CLAIMED:
        c = CLAIMED[pid]
        checks.append({
            "property_id": pid,
            "quick_cmd": "./check %s --tier quick" % pid,
            "thorough_cmd": "./check %s --tier thorough" % pid,
            "evidence_file": "/verif/evidence/%s.json" % pid,
            "replay_cmd_template": "./check replay {path}",
            "engine": "coq+correspondence",
            "level_claimed": {"category": "proof", "text": c["text"], "design_ref": c["design"]},
            "level_note": c["note"],
            "technique": c["technique"],
        })
    else:
        na.append({"property_id": pid, "reason": NOT_YET.get(pid, "check not built yet in this round (planned in DESIGN.md section 5); not claimed until its theorem and correspondence run exist")})
m = {
 "version": 1,
 "setup_cmd": "./check setup",
 "hooks": {
   "guard": "verif",
   "enable": "go build -tags verif (add-only files zz_verif_hooks.go under /repo/src, compiled only with the tag)",
   "baseline_off_cmd": "cd /repo/src && GOFLAGS=-mod=mod go test -vet=off -count=1 ./pkg/...",
   "source_commits": hook_commits,
   "add_only": True,
 },
 "engines": [{"name": "coq+correspondence", "path": "/verif/check", "serves_properties": [c["property_id"] for c in checks],
              "kind_free_text": "Coq 8.16.1 theorems over Gallina models (coq/), models extracted to OCaml (driver/) and run against the Go implementation (harness/cmd/rsprobe, built from /repo with -tags verif); tables/constants regenerated from the source by tools/goextract"}],
 "checks": checks,
 "not_applicable": na,
 "notes": "See DESIGN.md. KNOWN_FINDINGS.txt lists recorded findings and fixed defects.",
}
json.dump(m, open(os.path.join(V, "MANIFEST.json"), "w"), indent=1)
print("MANIFEST.json: %d checks, %d not claimed" % (len(checks), len(na)))
